//! Choice-sequence decoder. Every random decision of every generator is drawn from a `Vec<u32>`
//! produced by a proptest strategy, so proptest owns seeding, shrinking (shorter vectors and
//! smaller numbers mean structurally simpler cases) and replay. No RNG of our own.

/// Generator health: number of decoders created and of decoders that ran past the end of their
/// sequence (from there on every decision is the simplest one; a high share means truncated cases).
pub static CH_CREATED: std::sync::atomic::AtomicU64 = std::sync::atomic::AtomicU64::new(0);
pub static CH_EXHAUSTED: std::sync::atomic::AtomicU64 = std::sync::atomic::AtomicU64::new(0);

pub struct Ch<'a> {
    data: &'a [u32],
    pos: usize,
}

impl<'a> Ch<'a> {
    pub fn new(data: &'a [u32]) -> Self {
        CH_CREATED.fetch_add(1, std::sync::atomic::Ordering::Relaxed);
        Ch { data, pos: 0 }
    }
    pub fn used(&self) -> usize {
        self.pos
    }
    pub fn raw(&mut self) -> u32 {
        let v = self.data.get(self.pos).copied().unwrap_or(0);
        if self.pos == self.data.len() {
            CH_EXHAUSTED.fetch_add(1, std::sync::atomic::Ordering::Relaxed);
        }
        self.pos += 1;
        v
    }
    /// Uniform in `0..n`, monotone in the raw value so that shrinking the raw value shrinks the pick.
    pub fn below(&mut self, n: u32) -> u32 {
        if n <= 1 {
            // still consume a choice so the stream stays aligned between similar cases
            self.raw();
            return 0;
        }
        ((self.raw() as u64 * n as u64) >> 32) as u32
    }
    /// inclusive range
    pub fn range(&mut self, lo: u32, hi: u32) -> u32 {
        debug_assert!(lo <= hi);
        lo + self.below(hi - lo + 1)
    }
    pub fn usize_range(&mut self, lo: usize, hi: usize) -> usize {
        self.range(lo as u32, hi as u32) as usize
    }
    /// `true` with probability num/den; `false` is the simple (shrunk) outcome.
    pub fn chance(&mut self, num: u32, den: u32) -> bool {
        self.below(den) >= den - num.min(den)
    }
    pub fn flip(&mut self) -> bool {
        self.chance(1, 2)
    }
    pub fn pick<'b, T>(&mut self, items: &'b [T]) -> &'b T {
        assert!(!items.is_empty());
        &items[self.below(items.len() as u32) as usize]
    }
    pub fn idx(&mut self, len: usize) -> usize {
        self.below(len as u32) as usize
    }
    /// weighted pick: returns index; weights need not be normalised. Index 0 is the simple outcome.
    pub fn weighted(&mut self, weights: &[u32]) -> usize {
        let total: u32 = weights.iter().sum();
        if total == 0 {
            self.raw();
            return 0;
        }
        let mut x = self.below(total);
        for (i, w) in weights.iter().enumerate() {
            if x < *w {
                return i;
            }
            x -= *w;
        }
        weights.len() - 1
    }
}

/// splitmix64, used only to derive per-property seeds from VERIF_SEED and for hashing cases.
pub fn mix(a: u64, b: u64) -> u64 {
    let mut z = a ^ b.wrapping_mul(0x9E37_79B9_7F4A_7C15);
    z = z.wrapping_add(0x9E37_79B9_7F4A_7C15);
    z = (z ^ (z >> 30)).wrapping_mul(0xBF58_476D_1CE4_E5B9);
    z = (z ^ (z >> 27)).wrapping_mul(0x94D0_49BB_1331_11EB);
    z ^ (z >> 31)
}

pub fn hash_str(s: &str) -> u64 {
    // FNV-1a 64
    let mut h: u64 = 0xcbf2_9ce4_8422_2325;
    for b in s.as_bytes() {
        h ^= *b as u64;
        h = h.wrapping_mul(0x0000_0100_0000_01B3);
    }
    h
}
