//! Pre-flight: the harness itself asks naga whether a rendered program is valid WGSL. A program
//! naga rejects is a *generator* bug: it is dropped and counted, never judged.

use std::panic::{catch_unwind, AssertUnwindSafe};

pub struct Parsed {
    pub module: naga::Module,
    pub info: naga::valid::ModuleInfo,
}

pub static LAST_PANIC_LOCATION: std::sync::Mutex<String> = std::sync::Mutex::new(String::new());

pub fn quiet_panics() {
    // keep stderr readable: panics of the code under test are caught and reported by the judges;
    // the location of the last panic is kept for harness diagnostics
    std::panic::set_hook(Box::new(|info| {
        if let Some(l) = info.location() {
            if let Ok(mut g) = LAST_PANIC_LOCATION.lock() {
                *g = format!("{}:{}", l.file(), l.line());
            }
        }
    }));
}

pub fn preflight(wgsl: &str) -> Result<Parsed, String> {
    let r = catch_unwind(AssertUnwindSafe(|| {
        let module = naga::front::wgsl::parse_str(wgsl).map_err(|e| format!("parse: {}", e.emit_to_string(wgsl)))?;
        let info = naga::valid::Validator::new(naga::valid::ValidationFlags::all(), naga::valid::Capabilities::all())
            .validate(&module)
            .map_err(|e| format!("validate: {}", e.emit_to_string(wgsl)))?;
        Ok(Parsed { module, info })
    }));
    match r {
        Ok(x) => x,
        Err(_) => Err("naga panicked".to_string()),
    }
}
