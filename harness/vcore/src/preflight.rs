//! Pre-flight: the harness itself asks naga whether a rendered program is valid WGSL. A program
//! naga rejects is a *generator* bug: it is dropped and counted, never judged.

use std::panic::{catch_unwind, AssertUnwindSafe};

pub struct Parsed {
    pub module: naga::Module,
    pub info: naga::valid::ModuleInfo,
}

pub fn quiet_panics() {
    // keep stderr readable: panics of the code under test are caught and reported by the judges
    std::panic::set_hook(Box::new(|_| {}));
}

pub fn preflight(wgsl: &str) -> Result<Parsed, String> {
    let r = catch_unwind(AssertUnwindSafe(|| {
        let module = naga::front::wgsl::parse_str(wgsl).map_err(|e| format!("parse: {}", e.emit_to_string(wgsl)))?;
        let info = naga::valid::Validator::new(naga::valid::ValidationFlags::all(), naga::valid::Capabilities::all())
            .validate(&module)
            .map_err(|e| format!("validate: {}", e.emit_to_string(wgsl)))?;
        Ok(Parsed { module, info })
    }));
    match r {
        Ok(x) => x,
        Err(_) => Err("naga panicked".to_string()),
    }
}
