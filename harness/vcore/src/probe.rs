//! Compile-and-execute probes: generated modules (plus probe code written from the model) are placed
//! in shard crates of a cargo workspace that depends either on the real wgpu 24.0.5 (type-check only)
//! or on the recording fake (`/verif/shim/wgpu`, build + run). Diagnostics are attributed to cases by
//! file name; observations come back as one JSON line per case.

use crate::engine::VERIF_DIR;
use serde_json::Value;
use std::collections::BTreeMap;
use std::path::{Path, PathBuf};
use std::process::{Command, Stdio};

#[derive(Clone, Copy, PartialEq, Eq, Debug)]
pub enum Kind {
    Fake,
    Real,
}

#[derive(Clone, Debug)]
pub struct ProbeCase {
    /// the generator's output (a Rust module)
    pub module_src: String,
    /// Rust source of `probe_i.rs`; must define `pub fn probe() -> serde_json::Value`. Empty = no probe.
    pub probe_src: String,
    /// extra files written next to the sources: (file name, bytes)
    pub files: Vec<(String, Vec<u8>)>,
}

#[derive(Clone, Debug)]
pub struct Diag {
    /// "module" (case_i.rs) or "probe" (probe_i.rs)
    pub file: &'static str,
    pub line: usize,
    pub code: String,
    pub message: String,
    pub rendered: String,
}

#[derive(Clone, Debug)]
pub enum CaseResult {
    /// compiled (and ran, for Fake): observations, or None when only type-checked
    Ok(Option<Value>),
    CompileError(Vec<Diag>),
    RunPanic(String),
    /// could not be attributed (shard failed for another reason)
    Unknown(String),
}

pub const SHARDS: usize = 16;

const ALLOW: &str = "#![allow(dead_code, unused, non_snake_case, non_camel_case_types, non_upper_case_globals, uncommon_codepoints, mixed_script_confusables, confusable_idents, clippy::all)]\n";

fn deps(kind: Kind) -> String {
    let wgpu = match kind {
        Kind::Fake => format!("wgpu = {{ path = \"{VERIF_DIR}/shim/wgpu\" }}"),
        Kind::Real => "wgpu = { version = \"=24.0.5\", default-features = false, features = [\"wgsl\"] }".to_string(),
    };
    format!(
        "{wgpu}\nbytemuck = {{ version = \"1.19\", features = [\"derive\", \"min_const_generics\"] }}\nencase = {{ version = \"0.10.0\", features = [\"glam\"] }}\nglam = {{ version = \"0.29.1\", features = [\"bytemuck\", \"serde\"] }}\nserde = {{ version = \"1\", features = [\"derive\"] }}\nserde_json = \"1\"\nnalgebra = {{ path = \"{VERIF_DIR}/shim/nalgebra\" }}\n"
    )
}

pub fn target_dir(kind: Kind) -> String {
    match kind {
        Kind::Fake => format!("{VERIF_DIR}/work/target-fake"),
        Kind::Real => format!("{VERIF_DIR}/work/target-real"),
    }
}

fn lock_file(kind: Kind) -> PathBuf {
    Path::new(VERIF_DIR).join("probe").join(match kind {
        Kind::Fake => "fake.lock",
        Kind::Real => "real.lock",
    })
}

pub struct Workspace {
    pub kind: Kind,
    pub name: String,
    pub dir: PathBuf,
    pub shards: usize,
}

/// suffix that keeps concurrently running tiers (quick / thorough / replay) in separate workspaces
pub static WS_SUFFIX: std::sync::OnceLock<String> = std::sync::OnceLock::new();

impl Workspace {
    pub fn new(name: &str, kind: Kind, shards: usize) -> Workspace {
        let name = &format!("{}{}", name, WS_SUFFIX.get().map(|s| s.as_str()).unwrap_or(""));
        let dir = Path::new(VERIF_DIR).join("work").join("ws").join(format!("{}_{}", name, if kind == Kind::Fake { "fake" } else { "real" }));
        Workspace { kind, name: name.to_lowercase(), dir, shards }
    }

    fn pkg(&self, k: usize) -> String {
        format!("shard_{}_{}_{:02}", self.name, if self.kind == Kind::Fake { "f" } else { "r" }, k)
    }

    fn write_if_changed(path: &Path, content: &[u8]) {
        if let Ok(old) = std::fs::read(path) {
            if old == content {
                return;
            }
        }
        std::fs::write(path, content).unwrap_or_else(|e| {
            eprintln!("cannot write {}: {e}", path.display());
            std::process::exit(2)
        });
    }

    fn write_layout(&self) {
        std::fs::create_dir_all(&self.dir).expect("ws dir");
        let members: Vec<String> = (0..self.shards).map(|k| format!("\"s{k:02}\"")).collect();
        let ws = format!(
            "[workspace]\nresolver = \"2\"\nmembers = [{}]\n\n[profile.dev]\ndebug = 0\nincremental = false\nopt-level = 0\n",
            members.join(", ")
        );
        Self::write_if_changed(&self.dir.join("Cargo.toml"), ws.as_bytes());
        std::fs::create_dir_all(self.dir.join(".cargo")).unwrap();
        Self::write_if_changed(
            &self.dir.join(".cargo/config.toml"),
            format!("[net]\noffline = true\n[build]\ntarget-dir = \"{}\"\n", target_dir(self.kind)).as_bytes(),
        );
        let lock = std::fs::read(lock_file(self.kind)).or_else(|_| std::fs::read("/repo/Cargo.lock"));
        if let Ok(lock) = lock {
            // cargo adds the shard packages to the lock file itself
            if !self.dir.join("Cargo.lock").exists() {
                std::fs::write(self.dir.join("Cargo.lock"), lock).unwrap();
            }
        }
        for k in 0..self.shards {
            let d = self.dir.join(format!("s{k:02}"));
            std::fs::create_dir_all(d.join("src")).unwrap();
            let manifest = format!("[package]\nname = \"{}\"\nversion = \"0.0.0\"\nedition = \"2021\"\n\n[dependencies]\n{}", self.pkg(k), deps(self.kind));
            Self::write_if_changed(&d.join("Cargo.toml"), manifest.as_bytes());
        }
    }

    fn shard_of(&self, case: usize) -> usize {
        case % self.shards
    }

    fn write_sources(&self, cases: &[ProbeCase], active: &[bool]) {
        for k in 0..self.shards {
            let src = self.dir.join(format!("s{k:02}/src"));
            // remove stale case files
            if let Ok(rd) = std::fs::read_dir(&src) {
                for e in rd.flatten() {
                    let _ = std::fs::remove_file(e.path());
                }
            }
            let mut main = String::from(ALLOW);
            let mut calls = String::new();
            for (i, c) in cases.iter().enumerate() {
                if self.shard_of(i) != k || !active[i] {
                    continue;
                }
                std::fs::write(src.join(format!("case_{i}.rs")), &c.module_src).unwrap();
                main.push_str(&format!("#[path = \"case_{i}.rs\"]\npub mod case_{i};\n"));
                for (name, bytes) in &c.files {
                    std::fs::write(src.join(name), bytes).unwrap();
                }
                if !c.probe_src.is_empty() {
                    std::fs::write(src.join(format!("probe_{i}.rs")), c.probe_src.replace("CASEMOD", &format!("super::case_{i}"))).unwrap();
                    main.push_str(&format!("#[path = \"probe_{i}.rs\"]\npub mod probe_{i};\n"));
                    calls.push_str(&format!("    run_case({i}, probe_{i}::probe);\n"));
                }
            }
            main.push_str(
                r#"
fn run_case(i: usize, f: fn() -> serde_json::Value) {
    let r = std::thread::Builder::new()
        .stack_size(64 << 20)
        .spawn(move || std::panic::catch_unwind(f))
        .unwrap()
        .join();
    let line = match r {
        Ok(Ok(v)) => serde_json::json!({"case": i, "obs": v}),
        Ok(Err(e)) => {
            let m = if let Some(s) = e.downcast_ref::<&str>() { s.to_string() } else if let Some(s) = e.downcast_ref::<String>() { s.clone() } else { "panic".to_string() };
            serde_json::json!({"case": i, "panic": m})
        }
        Err(_) => serde_json::json!({"case": i, "panic": "probe thread died"}),
    };
    println!("{}", line);
}

fn main() {
    std::panic::set_hook(Box::new(|_| {}));
"#,
            );
            main.push_str(&calls);
            main.push_str("}\n");
            std::fs::write(src.join("main.rs"), main).unwrap();
        }
    }

    /// Returns per-shard success and attributed diagnostics per case.
    fn cargo(&self, build: bool) -> (Vec<bool>, BTreeMap<usize, Vec<Diag>>, Vec<String>) {
        let mut cmd = Command::new("cargo");
        cmd.arg(if build { "build" } else { "check" })
            .arg("--workspace")
            .arg("--keep-going")
            .arg("--message-format=json")
            .arg("-q")
            .env("CARGO_NET_OFFLINE", "true")
            .env_remove("RUSTFLAGS")
            .current_dir(&self.dir)
            .stdout(Stdio::piped())
            .stderr(Stdio::piped());
        let out = cmd.output().unwrap_or_else(|e| {
            eprintln!("cannot run cargo: {e}");
            std::process::exit(2)
        });
        let mut shard_ok = vec![true; self.shards];
        let mut diags: BTreeMap<usize, Vec<Diag>> = BTreeMap::new();
        let mut unattributed = Vec::new();
        let stdout = String::from_utf8_lossy(&out.stdout);
        for line in stdout.lines() {
            let Ok(v) = serde_json::from_str::<Value>(line) else { continue };
            match v["reason"].as_str() {
                Some("compiler-message") => {
                    let msg = &v["message"];
                    if msg["level"].as_str() != Some("error") {
                        continue;
                    }
                    let pkg = v["package_id"].as_str().unwrap_or("");
                    let shard = (0..self.shards).find(|k| pkg.contains(&self.pkg(*k)));
                    if let Some(k) = shard {
                        shard_ok[k] = false;
                    }
                    let text = msg["message"].as_str().unwrap_or("").to_string();
                    if text.starts_with("aborting due to") || text.starts_with("could not compile") {
                        continue;
                    }
                    let code = msg["code"]["code"].as_str().unwrap_or("").to_string();
                    let rendered = msg["rendered"].as_str().unwrap_or("").to_string();
                    match attribute(&msg["spans"]) {
                        Some((case, file, line)) => diags.entry(case).or_default().push(Diag { file, line, code, message: text, rendered }),
                        None => unattributed.push(rendered),
                    }
                }
                Some("build-finished") => {}
                _ => {}
            }
        }
        if !out.status.success() && diags.is_empty() && unattributed.is_empty() {
            unattributed.push(format!("cargo failed: {}", String::from_utf8_lossy(&out.stderr).chars().take(3000).collect::<String>()));
            for s in shard_ok.iter_mut() {
                *s = false;
            }
        }
        if !out.status.success() {
            // a shard without its own error message may still have failed (dependency of nothing: cannot) -- rely on messages
        }
        (shard_ok, diags, unattributed)
    }

    /// Build (Fake: and run) all cases. Cases with attributed compile errors are reported as
    /// CompileError and removed, then the remaining cases of failed shards are rebuilt (up to 4 rounds).
    pub fn run(&self, cases: &[ProbeCase]) -> Vec<CaseResult> {
        self.write_layout();
        let build = self.kind == Kind::Fake && cases.iter().any(|c| !c.probe_src.is_empty());
        let mut active = vec![true; cases.len()];
        let mut results: Vec<Option<CaseResult>> = vec![None; cases.len()];
        let mut shard_ok = vec![false; self.shards];
        for round in 0..5 {
            self.write_sources(cases, &active);
            let (ok, diags, unattributed) = self.cargo(build);
            shard_ok = ok;
            if diags.is_empty() {
                if !unattributed.is_empty() {
                    for (i, r) in results.iter_mut().enumerate() {
                        if r.is_none() && !shard_ok[self.shard_of(i)] {
                            *r = Some(CaseResult::Unknown(unattributed.join("\n").chars().take(3000).collect()));
                            active[i] = false;
                        }
                    }
                }
                break;
            }
            for (case, ds) in diags {
                if case < cases.len() && results[case].is_none() {
                    results[case] = Some(CaseResult::CompileError(ds));
                    active[case] = false;
                }
            }
            if round == 4 {
                for (i, r) in results.iter_mut().enumerate() {
                    if r.is_none() && !shard_ok[self.shard_of(i)] {
                        *r = Some(CaseResult::Unknown("shard still failing after 5 rounds".into()));
                    }
                }
            }
        }
        // run
        let mut obs: BTreeMap<usize, CaseResult> = BTreeMap::new();
        if build {
            let outs: Vec<(usize, String, bool)> = std::thread::scope(|s| {
                let hs: Vec<_> = (0..self.shards)
                    .filter(|k| shard_ok[*k])
                    .map(|k| {
                        let exe = Path::new(&target_dir(self.kind)).join("debug").join(self.pkg(k));
                        s.spawn(move || {
                            let o = Command::new(&exe).stdin(Stdio::null()).output();
                            match o {
                                Ok(o) => (k, String::from_utf8_lossy(&o.stdout).to_string(), o.status.success()),
                                Err(e) => (k, format!("cannot run {}: {e}", exe.display()), false),
                            }
                        })
                    })
                    .collect();
                hs.into_iter().map(|h| h.join().unwrap()).collect()
            });
            for (_k, text, _ok) in outs {
                for line in text.lines() {
                    if let Ok(v) = serde_json::from_str::<Value>(line) {
                        if let Some(i) = v["case"].as_u64() {
                            let r = if let Some(p) = v["panic"].as_str() { CaseResult::RunPanic(p.to_string()) } else { CaseResult::Ok(Some(v["obs"].clone())) };
                            obs.insert(i as usize, r);
                        }
                    }
                }
            }
        }
        results
            .into_iter()
            .enumerate()
            .map(|(i, r)| match r {
                Some(r) => r,
                None => {
                    if !shard_ok[self.shard_of(i)] {
                        CaseResult::Unknown("shard failed".into())
                    } else if build && !cases[i].probe_src.is_empty() {
                        obs.remove(&i).unwrap_or(CaseResult::RunPanic("no output from probe (process died?)".into()))
                    } else {
                        CaseResult::Ok(None)
                    }
                }
            })
            .collect()
    }
}

/// Find the first span (walking macro expansions outwards) that lies in a case or probe file.
fn attribute(spans: &Value) -> Option<(usize, &'static str, usize)> {
    let arr = spans.as_array()?;
    // primary spans first
    let mut ordered: Vec<&Value> = arr.iter().filter(|s| s["is_primary"].as_bool() == Some(true)).collect();
    ordered.extend(arr.iter().filter(|s| s["is_primary"].as_bool() != Some(true)));
    for s in ordered {
        let mut cur = s;
        for _ in 0..12 {
            if let Some(r) = file_case(cur["file_name"].as_str().unwrap_or("")) {
                return Some((r.0, r.1, cur["line_start"].as_u64().unwrap_or(0) as usize));
            }
            let exp = &cur["expansion"];
            if exp.is_null() {
                break;
            }
            cur = &exp["span"];
        }
    }
    None
}

fn file_case(name: &str) -> Option<(usize, &'static str)> {
    let base = name.rsplit('/').next()?;
    if let Some(r) = base.strip_prefix("case_").and_then(|r| r.strip_suffix(".rs")) {
        return r.parse().ok().map(|i| (i, "module"));
    }
    if let Some(r) = base.strip_prefix("probe_").and_then(|r| r.strip_suffix(".rs")) {
        return r.parse().ok().map(|i| (i, "probe"));
    }
    None
}

/// Ensure the dependency graph of a workspace kind is compiled (setup / first use).
pub fn warm(kind: Kind) {
    let ws = Workspace::new("warm", kind, 1);
    let case = ProbeCase {
        module_src: "pub fn nothing() {}\n".into(),
        probe_src: if kind == Kind::Fake { "pub fn probe() -> serde_json::Value { serde_json::json!({\"ok\": true}) }\n".into() } else { String::new() },
        files: vec![],
    };
    let r = ws.run(&[case]);
    match &r[0] {
        CaseResult::Ok(_) => {}
        other => {
            eprintln!("probe workspace {kind:?} does not build: {other:?}");
            std::process::exit(2);
        }
    }
}
