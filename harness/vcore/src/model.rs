//! Program model: an AST of a WGSL module that carries enough structure to compute reference
//! semantics (layout, reachability, static access sets, expected Rust items) without asking naga
//! or the code under test.

use serde::{Deserialize, Serialize};

#[derive(Clone, Copy, PartialEq, Eq, Hash, Debug, Serialize, Deserialize, PartialOrd, Ord)]
pub enum Sc {
    F32,
    I32,
    U32,
    F64,
    Bool,
}

impl Sc {
    pub fn wgsl(self) -> &'static str {
        match self {
            Sc::F32 => "f32",
            Sc::I32 => "i32",
            Sc::U32 => "u32",
            Sc::F64 => "f64",
            Sc::Bool => "bool",
        }
    }
    pub fn rust(self) -> &'static str {
        self.wgsl()
    }
    /// byte size in WGSL host-shareable layout (bool is not host-shareable; 4 is naga's number)
    pub fn size(self) -> u32 {
        match self {
            Sc::F64 => 8,
            Sc::Bool => 1,
            _ => 4,
        }
    }
    pub fn is_float(self) -> bool {
        matches!(self, Sc::F32 | Sc::F64)
    }
    /// a literal of this scalar type in WGSL
    pub fn lit(self, v: u32) -> String {
        match self {
            Sc::F32 => format!("{}.0", v),
            Sc::I32 => format!("{}i", v),
            Sc::U32 => format!("{}u", v),
            Sc::F64 => format!("{}.0lf", v),
            Sc::Bool => (if v % 2 == 1 { "true" } else { "false" }).to_string(),
        }
    }
}

#[derive(Clone, PartialEq, Eq, Hash, Debug, Serialize, Deserialize)]
pub enum Ty {
    S(Sc),
    V(u8, Sc),
    /// matCxR: `c` columns of `r`-component vectors
    M { c: u8, r: u8, s: Sc },
    A(Box<Ty>, u32),
    RA(Box<Ty>),
    At(Sc),
    St(usize),
}

#[derive(Clone, PartialEq, Eq, Debug, Serialize, Deserialize)]
pub enum Io {
    None,
    Loc { loc: u32, flat: bool },
    Builtin(String),
}

#[derive(Clone, PartialEq, Eq, Debug, Serialize, Deserialize)]
pub struct Member {
    pub name: String,
    pub ty: Ty,
    pub size_attr: Option<u32>,
    pub align_attr: Option<u32>,
    pub io: Io,
}

impl Member {
    pub fn plain(name: &str, ty: Ty) -> Member {
        Member { name: name.to_string(), ty, size_attr: None, align_attr: None, io: Io::None }
    }
}

#[derive(Clone, PartialEq, Eq, Debug, Serialize, Deserialize)]
pub struct StructDef {
    pub name: String,
    pub members: Vec<Member>,
}

#[derive(Clone, Copy, PartialEq, Eq, Debug, Serialize, Deserialize, Hash)]
pub enum Space {
    Uniform,
    StorageR,
    StorageRW,
    Private,
    Workgroup,
    Push,
}

#[derive(Clone, Copy, PartialEq, Eq, Debug, Serialize, Deserialize, Hash)]
pub enum Dim {
    D1,
    D2,
    D3,
    Cube,
}

#[derive(Clone, Copy, PartialEq, Eq, Debug, Serialize, Deserialize, Hash)]
pub enum Acc {
    Read,
    Write,
    ReadWrite,
    Atomic,
}

#[derive(Clone, Copy, PartialEq, Eq, Debug, Serialize, Deserialize, Hash)]
pub enum Tex {
    Sampled { dim: Dim, arrayed: bool, sc: Sc, multi: bool },
    Depth { dim: Dim, arrayed: bool, multi: bool },
    Storage { dim: Dim, arrayed: bool, fmt: usize, access: Acc },
}

#[derive(Clone, PartialEq, Eq, Debug, Serialize, Deserialize)]
pub enum GKind {
    Buf { space: Space, ty: Ty },
    Tex(Tex),
    Samp { cmp: bool },
}

#[derive(Clone, PartialEq, Eq, Debug, Serialize, Deserialize)]
pub struct Global {
    pub name: String,
    pub kind: GKind,
    /// (group, binding) for resources; None for private/workgroup/push constant
    pub binding: Option<(u32, u32)>,
}

impl Global {
    pub fn is_resource(&self) -> bool {
        self.binding.is_some()
    }
}

#[derive(Clone, Copy, PartialEq, Eq, Debug, Serialize, Deserialize, Hash, PartialOrd, Ord)]
pub enum Stage {
    Vertex,
    Fragment,
    Compute,
}

impl Stage {
    pub fn bit(self) -> u32 {
        match self {
            Stage::Vertex => 1,
            Stage::Fragment => 2,
            Stage::Compute => 4,
        }
    }
    pub const ALL: [Stage; 3] = [Stage::Vertex, Stage::Fragment, Stage::Compute];
}

#[derive(Clone, PartialEq, Eq, Debug, Serialize, Deserialize)]
pub enum AccForm {
    /// `let v = <expr>;`
    Load(String),
    /// `<lhs> = <rhs>;`, or the statement `<lhs>;` when rhs is empty
    Store(String, String),
}

#[derive(Clone, PartialEq, Eq, Debug, Serialize, Deserialize)]
pub struct Access {
    pub g: usize,
    pub form: AccForm,
    pub partner: Option<usize>,
    /// what kind of access this is (for the class histogram)
    pub label: String,
}

#[derive(Clone, Copy, PartialEq, Eq, Debug, Serialize, Deserialize)]
pub enum CallForm {
    /// `h(x);`
    Stmt,
    /// `let v = h(x);`
    Let,
    /// `acc = acc + h(x) * 2.0;`
    Operand,
    /// `acc = max(acc, abs(h(x)));`
    Arg,
    /// `acc = h(h(x));` -- call nested in the argument of a call to the same helper
    Nested,
    /// `if (h(x) > 0.5) { acc = acc + 1.0; }`
    Cond,
    /// `if (acc > 1000.0) { return h(x); }` (value functions)
    Ret,
    /// `switch (i32(h(x))) { default: {} }`
    Selector,
    /// `for (var i = 0.0; i < h(x); i += 1.0) { break; }`
    ForCond,
    /// `loop { ... continuing { break if h(x) > 0.0; } }`
    BreakIf,
}

#[derive(Clone, PartialEq, Eq, Debug, Serialize, Deserialize)]
pub enum Stmt {
    Acc(Access),
    Call { f: usize, form: CallForm },
    If { a: Vec<Stmt>, r: Vec<Stmt> },
    Loop { body: Vec<Stmt>, cont: Vec<Stmt> },
    For(Vec<Stmt>),
    While(Vec<Stmt>),
    Switch { cases: Vec<Vec<Stmt>>, default: Vec<Stmt> },
    Block(Vec<Stmt>),
    /// verbatim statement text (used by property-specific generators)
    Raw(String),
}

#[derive(Clone, PartialEq, Eq, Debug, Serialize, Deserialize)]
pub struct Func {
    pub name: String,
    /// returns f32 (true) or nothing
    pub ret: bool,
    pub body: Vec<Stmt>,
}

#[derive(Clone, PartialEq, Eq, Debug, Serialize, Deserialize)]
pub enum EParam {
    Struct { name: String, st: usize },
    Builtin { name: String, builtin: String, ty: Ty },
    Loc { name: String, loc: u32, ty: Ty, flat: bool },
}

#[derive(Clone, PartialEq, Eq, Debug, Serialize, Deserialize)]
pub enum EResult {
    None,
    Builtin { builtin: String, ty: Ty },
    Loc { loc: u32, ty: Ty },
    Struct(usize),
}

#[derive(Clone, PartialEq, Eq, Debug, Serialize, Deserialize)]
pub enum WgDim {
    Lit(u32),
    Const(String, u32),
    /// the dimension is the named `override` (its value is a pipeline-creation matter)
    Override(String),
}

impl WgDim {
    pub fn value(&self) -> u32 {
        match self {
            WgDim::Lit(v) => *v,
            WgDim::Const(_, v) => *v,
            WgDim::Override(_) => 0,
        }
    }
}

#[derive(Clone, PartialEq, Eq, Debug, Serialize, Deserialize)]
pub struct Entry {
    pub stage: Stage,
    pub name: String,
    pub params: Vec<EParam>,
    pub result: EResult,
    pub wg: Vec<WgDim>,
    pub body: Vec<Stmt>,
}

#[derive(Clone, PartialEq, Debug, Serialize, Deserialize)]
pub enum ConstVal {
    I32(i32),
    U32(u32),
    F32(u32),
    F64(u64),
    I64(i64),
    U64(u64),
    Bool(bool),
    AbstractInt(i64),
    AbstractFloat(u64),
}

#[derive(Clone, PartialEq, Debug, Serialize, Deserialize)]
pub struct ConstDef {
    pub name: String,
    /// the WGSL declaration text after `const NAME` (e.g. `: i32 = -3` or ` = 1.5`)
    pub decl: String,
    /// expected exported value; None = must not be exported (non-scalar)
    pub expect: Option<ConstVal>,
}

#[derive(Clone, PartialEq, Debug, Serialize, Deserialize)]
pub struct OverrideDef {
    pub name: String,
    pub id: Option<u16>,
    pub ty: Sc,
    /// WGSL initialiser text if the override has a default
    pub init: Option<String>,
}

#[derive(Clone, PartialEq, Debug, Serialize, Deserialize, Default)]
pub struct Shader {
    pub structs: Vec<StructDef>,
    pub globals: Vec<Global>,
    pub consts: Vec<ConstDef>,
    pub overrides: Vec<OverrideDef>,
    pub funcs: Vec<Func>,
    pub entries: Vec<Entry>,
    /// free text placed at the very top (comments, for C16)
    pub prologue: String,
    /// extra text after everything (comments)
    pub epilogue: String,
    /// `enable`/`requires` directives etc. are not generated
    /// declaration order of module-scope items: indices into a flattened list, see render
    pub global_order: Vec<usize>,
    /// 0 = canonical order (structs, constants, overrides, variables, functions, entry points);
    /// otherwise the module-scope declarations are permuted with this seed (WGSL declarations are
    /// order-independent). Variables keep their relative order (`global_order`).
    #[serde(default)]
    pub item_shuffle: u64,
    /// `alias Name = <type>;` declarations. Where a struct member, module-scope variable or entry
    /// point parameter has exactly this type, the renderer spells it through the alias for the
    /// occurrences selected by `uses` (bit k%32 = k-th occurrence in rendering order).
    #[serde(default)]
    pub aliases: Vec<AliasDef>,
    /// (variable name, override name): `var<workgroup> name: array<T, override>` -- the variable's
    /// type in `globals` is `array<T, 4>`, the renderer writes the override as the length
    #[serde(default)]
    pub ov_sized: Vec<(String, String)>,
    /// module-scope text items without a model counterpart (helper functions that take and return
    /// structs, `const_assert`): they carry no expectation of any property
    #[serde(default)]
    pub raw_items: Vec<String>,
}

#[derive(Clone, PartialEq, Debug, Serialize, Deserialize)]
pub struct AliasDef {
    pub name: String,
    pub ty: Ty,
    pub uses: u32,
}

/// The 41 storage texel formats of naga 24 in naga's declaration order, with the channel scalar.
pub const STORAGE_FORMATS: [(&str, Sc); 41] = [
    ("r8unorm", Sc::F32),
    ("r8snorm", Sc::F32),
    ("r8uint", Sc::U32),
    ("r8sint", Sc::I32),
    ("r16uint", Sc::U32),
    ("r16sint", Sc::I32),
    ("r16float", Sc::F32),
    ("rg8unorm", Sc::F32),
    ("rg8snorm", Sc::F32),
    ("rg8uint", Sc::U32),
    ("rg8sint", Sc::I32),
    ("r32uint", Sc::U32),
    ("r32sint", Sc::I32),
    ("r32float", Sc::F32),
    ("rg16uint", Sc::U32),
    ("rg16sint", Sc::I32),
    ("rg16float", Sc::F32),
    ("rgba8unorm", Sc::F32),
    ("rgba8snorm", Sc::F32),
    ("rgba8uint", Sc::U32),
    ("rgba8sint", Sc::I32),
    ("bgra8unorm", Sc::F32),
    ("rgb10a2uint", Sc::U32),
    ("rgb10a2unorm", Sc::F32),
    ("rg11b10float", Sc::F32),
    ("r64uint", Sc::U32),
    ("rg32uint", Sc::U32),
    ("rg32sint", Sc::I32),
    ("rg32float", Sc::F32),
    ("rgba16uint", Sc::U32),
    ("rgba16sint", Sc::I32),
    ("rgba16float", Sc::F32),
    ("rgba32uint", Sc::U32),
    ("rgba32sint", Sc::I32),
    ("rgba32float", Sc::F32),
    ("r16unorm", Sc::F32),
    ("r16snorm", Sc::F32),
    ("rg16unorm", Sc::F32),
    ("rg16snorm", Sc::F32),
    ("rgba16unorm", Sc::F32),
    ("rgba16snorm", Sc::F32),
];

/// wgpu_types::TextureFormat variant name for a WGSL storage texel format, written from the WebGPU
/// format names (first letter capitalised, `unorm`→`Unorm`, …) -- an independent table, not derived
/// from naga's Debug output.
pub fn wgpu_format_name(wgsl: &str) -> String {
    // e.g. rgba8unorm -> Rgba8Unorm, rg11b10float -> Rg11b10Ufloat (wgpu name!), rgb10a2uint -> Rgb10a2Uint
    let (head, tail) = split_format(wgsl);
    let mut h = head.to_string();
    if let Some(f) = h.get_mut(0..1) {
        f.make_ascii_uppercase();
    }
    let t = match tail {
        "unorm" => "Unorm",
        "snorm" => "Snorm",
        "uint" => "Uint",
        "sint" => "Sint",
        "float" => {
            if head == "rg11b10" {
                "Ufloat"
            } else {
                "Float"
            }
        }
        _ => unreachable!(),
    };
    format!("{h}{t}")
}

fn split_format(s: &str) -> (&str, &str) {
    for t in ["unorm", "snorm", "uint", "sint", "float"] {
        if let Some(h) = s.strip_suffix(t) {
            return (h, t);
        }
    }
    unreachable!("{s}")
}

impl Ty {
    pub fn wgsl(&self, structs: &[StructDef]) -> String {
        match self {
            Ty::S(s) => s.wgsl().to_string(),
            Ty::V(n, s) => format!("vec{}<{}>", n, s.wgsl()),
            Ty::M { c, r, s } => format!("mat{}x{}<{}>", c, r, s.wgsl()),
            Ty::A(e, n) => format!("array<{}, {}>", e.wgsl(structs), n),
            Ty::RA(e) => format!("array<{}>", e.wgsl(structs)),
            Ty::At(s) => format!("atomic<{}>", s.wgsl()),
            Ty::St(i) => structs[*i].name.clone(),
        }
    }
    pub fn contains_struct(&self, out: &mut Vec<usize>, structs: &[StructDef]) {
        match self {
            Ty::A(e, _) | Ty::RA(e) => e.contains_struct(out, structs),
            Ty::St(i) => {
                if !out.contains(i) {
                    out.push(*i);
                    for m in &structs[*i].members {
                        m.ty.contains_struct(out, structs);
                    }
                }
            }
            _ => {}
        }
    }
    pub fn has_scalar(&self, sc: Sc, structs: &[StructDef]) -> bool {
        match self {
            Ty::S(s) | Ty::V(_, s) | Ty::At(s) => *s == sc,
            Ty::M { s, .. } => *s == sc,
            Ty::A(e, _) | Ty::RA(e) => e.has_scalar(sc, structs),
            Ty::St(i) => structs[*i].members.iter().any(|m| m.ty.has_scalar(sc, structs)),
        }
    }
    pub fn has_atomic(&self, structs: &[StructDef]) -> bool {
        match self {
            Ty::At(_) => true,
            Ty::A(e, _) | Ty::RA(e) => e.has_atomic(structs),
            Ty::St(i) => structs[*i].members.iter().any(|m| m.ty.has_atomic(structs)),
            _ => false,
        }
    }
    pub fn has_rt_array(&self, structs: &[StructDef]) -> bool {
        match self {
            Ty::RA(_) => true,
            Ty::St(i) => structs[*i].members.iter().any(|m| m.ty.has_rt_array(structs)),
            _ => false,
        }
    }
    pub fn max_array_len(&self, structs: &[StructDef]) -> u32 {
        match self {
            Ty::A(e, n) => (*n).max(e.max_array_len(structs)),
            Ty::RA(e) => e.max_array_len(structs),
            Ty::St(i) => structs[*i].members.iter().map(|m| m.ty.max_array_len(structs)).max().unwrap_or(0),
            _ => 0,
        }
    }
}

impl Shader {
    pub fn stages_present(&self) -> u32 {
        self.entries.iter().fold(0, |a, e| a | e.stage.bit())
    }
}

/// Walk statements, calling `f` for every statement (pre-order), including nested ones.
pub fn walk_stmts<'a>(stmts: &'a [Stmt], f: &mut dyn FnMut(&'a Stmt, usize), depth: usize) {
    for s in stmts {
        f(s, depth);
        match s {
            Stmt::If { a, r } => {
                walk_stmts(a, f, depth + 1);
                walk_stmts(r, f, depth + 1);
            }
            Stmt::Loop { body, cont } => {
                walk_stmts(body, f, depth + 1);
                walk_stmts(cont, f, depth + 1);
            }
            Stmt::For(b) | Stmt::While(b) | Stmt::Block(b) => walk_stmts(b, f, depth + 1),
            Stmt::Switch { cases, default } => {
                for c in cases {
                    walk_stmts(c, f, depth + 1);
                }
                walk_stmts(default, f, depth + 1);
            }
            _ => {}
        }
    }
}
