//! Reference layouts. `wgsl_*`: the WGSL specification's AlignOf/SizeOf/OffsetOf rules implemented
//! on the generator AST (never asks naga). `rust_*`: repr(C) rules on the Rust types the statement of
//! C06 prescribes, with leaf sizes of glam types taken from a table that the probe binaries re-measure
//! (a mismatch is a harness error, not a violation).

use crate::model::*;

/// All layout arithmetic saturates: a type too large for u32 gets size u32::MAX (naga rejects such
/// types, and the generator caps array lengths so that they do not arise).
pub fn round_up(align: u32, v: u32) -> u32 {
    debug_assert!(align > 0);
    v.div_ceil(align).saturating_mul(align)
}

#[derive(Clone, Debug, PartialEq, Eq)]
pub struct Layout {
    pub size: u32,
    pub align: u32,
}

#[derive(Clone, Debug, PartialEq, Eq)]
pub struct StructLayout {
    pub size: u32,
    pub align: u32,
    /// byte offset per member (all members, including builtins)
    pub offsets: Vec<u32>,
}

pub fn wgsl_layout(ty: &Ty, structs: &[StructDef]) -> Layout {
    match ty {
        Ty::S(s) | Ty::At(s) => Layout { size: s.size(), align: s.size() },
        Ty::V(n, s) => {
            let f = if *n == 2 { 2 } else { 4 };
            Layout { size: *n as u32 * s.size(), align: f * s.size() }
        }
        Ty::M { c, r, s } => {
            let col = wgsl_layout(&Ty::V(*r, *s), structs);
            Layout { size: (*c as u32).saturating_mul(round_up(col.align, col.size)), align: col.align }
        }
        Ty::A(e, n) => {
            let el = wgsl_layout(e, structs);
            Layout { size: n.saturating_mul(round_up(el.align, el.size)), align: el.align }
        }
        Ty::RA(e) => {
            // size of a runtime array with one element (the minimum binding size); callers that need
            // n elements use `wgsl_stride`
            let el = wgsl_layout(e, structs);
            Layout { size: round_up(el.align, el.size), align: el.align }
        }
        Ty::St(i) => {
            let sl = wgsl_struct_layout(&structs[*i], structs);
            Layout { size: sl.size, align: sl.align }
        }
    }
}

pub fn wgsl_stride(elem: &Ty, structs: &[StructDef]) -> u32 {
    let el = wgsl_layout(elem, structs);
    round_up(el.align, el.size)
}

pub fn wgsl_struct_layout(sd: &StructDef, structs: &[StructDef]) -> StructLayout {
    let mut off = 0u32;
    let mut align = 1u32;
    let mut offsets = Vec::new();
    for m in &sd.members {
        let l = wgsl_layout(&m.ty, structs);
        let a = m.align_attr.unwrap_or(l.align);
        let s = m.size_attr.unwrap_or(l.size);
        off = round_up(a, off);
        offsets.push(off);
        off = off.saturating_add(s);
        align = align.max(a);
    }
    StructLayout { size: round_up(align, off), align, offsets }
}

/// Offsets (relative to the start of a value of type `ty`) of every scalar component, in the
/// canonical traversal order (members in order, array elements in order, matrix columns then rows).
/// For a runtime array `rt_len` elements are assumed.
pub fn wgsl_component_offsets(ty: &Ty, structs: &[StructDef], base: u32, rt_len: u32, out: &mut Vec<(u32, Sc)>) {
    match ty {
        Ty::S(s) | Ty::At(s) => out.push((base, *s)),
        Ty::V(n, s) => {
            for i in 0..*n as u32 {
                out.push((base + i * s.size(), *s));
            }
        }
        Ty::M { c, r, s } => {
            let col = wgsl_layout(&Ty::V(*r, *s), structs);
            let stride = round_up(col.align, col.size);
            for ci in 0..*c as u32 {
                for ri in 0..*r as u32 {
                    out.push((base + ci * stride + ri * s.size(), *s));
                }
            }
        }
        Ty::A(e, n) => {
            let stride = wgsl_stride(e, structs);
            for i in 0..*n {
                wgsl_component_offsets(e, structs, base + i * stride, rt_len, out);
            }
        }
        Ty::RA(e) => {
            let stride = wgsl_stride(e, structs);
            for i in 0..rt_len {
                wgsl_component_offsets(e, structs, base + i * stride, rt_len, out);
            }
        }
        Ty::St(i) => {
            let sl = wgsl_struct_layout(&structs[*i], structs);
            for (m, off) in structs[*i].members.iter().zip(sl.offsets.iter()) {
                wgsl_component_offsets(&m.ty, structs, base + off, rt_len, out);
            }
        }
    }
}

/// Uniform address space layout constraints, transcribed from naga 24 `valid/type.rs`
/// (uniform_layout computation). Returns the required alignment or None if not allowed.
pub fn uniform_ok(ty: &Ty, structs: &[StructDef]) -> Option<u32> {
    match ty {
        Ty::S(Sc::Bool) | Ty::V(_, Sc::Bool) => None,
        Ty::S(_) | Ty::V(..) | Ty::M { .. } | Ty::At(_) => Some(wgsl_layout(ty, structs).align),
        Ty::A(e, _) => {
            let base = uniform_ok(e, structs)?;
            let general = wgsl_layout(e, structs).align;
            let a = base.max(general).max(16);
            let stride = wgsl_stride(e, structs);
            if stride % a == 0 {
                Some(a)
            } else {
                None
            }
        }
        Ty::RA(_) => None,
        Ty::St(i) => {
            let sd = &structs[*i];
            let sl = wgsl_struct_layout(sd, structs);
            let mut a = 16;
            let mut prev_struct: Option<(u32, u32)> = None;
            for (m, off) in sd.members.iter().zip(sl.offsets.iter()) {
                let ma = uniform_ok(&m.ty, structs)?;
                if off % ma != 0 {
                    return None;
                }
                a = a.max(ma);
                if let Some((span, poff)) = prev_struct {
                    if off - poff < round_up(16, span) {
                        return None;
                    }
                }
                prev_struct = match &m.ty {
                    Ty::St(j) => Some((wgsl_struct_layout(&structs[*j], structs).size, *off)),
                    _ => None,
                };
            }
            Some(a)
        }
    }
}

/// Storage address space: naga requires member offsets aligned to the member's alignment and array
/// strides aligned to the element alignment, which the WGSL layout rules always satisfy unless an
/// explicit `@align` smaller than natural is used (never generated). bool is not host-shareable.
pub fn storage_ok(ty: &Ty, structs: &[StructDef]) -> bool {
    !ty.has_scalar(Sc::Bool, structs)
}

// ---------------------------------------------------------------------------------------------
// Rust side

#[derive(Clone, Copy, PartialEq, Eq, Debug, Hash, serde::Serialize)]
pub enum Repr {
    Rust,
    Glam,
    Nalgebra,
}

/// (type name as written in Rust with full path, size, align) of the leaf type the statement of C06
/// prescribes for a WGSL scalar/vector/matrix under a representation.
#[derive(Clone, Debug, PartialEq, Eq)]
pub struct RustLeaf {
    pub ty: String,
    pub size: u32,
    pub align: u32,
}

fn sc_size_rust(s: Sc) -> u32 {
    match s {
        Sc::Bool => 1,
        Sc::F64 => 8,
        _ => 4,
    }
}

/// x86-64 (SSE2) sizes/alignments of glam 0.29 types; re-measured by every probe binary.
pub const GLAM_TABLE: [(&str, u32, u32); 18] = [
    ("glam::Vec2", 8, 4),
    ("glam::Vec3", 12, 4),
    ("glam::Vec4", 16, 16),
    ("glam::DVec2", 16, 8),
    ("glam::DVec3", 24, 8),
    ("glam::DVec4", 32, 8),
    ("glam::UVec2", 8, 4),
    ("glam::UVec3", 12, 4),
    ("glam::UVec4", 16, 4),
    ("glam::IVec2", 8, 4),
    ("glam::IVec3", 12, 4),
    ("glam::IVec4", 16, 4),
    ("glam::Mat2", 16, 16),
    ("glam::Mat3", 36, 4),
    ("glam::Mat4", 64, 16),
    ("glam::DMat2", 32, 8),
    ("glam::DMat3", 72, 8),
    ("glam::DMat4", 128, 8),
];

fn glam_lookup(name: &str) -> RustLeaf {
    let (n, s, a) = GLAM_TABLE.iter().find(|(n, _, _)| *n == name).unwrap();
    RustLeaf { ty: n.to_string(), size: *s, align: *a }
}

/// The Rust type expected for a WGSL type; `None` for a runtime array outside last position etc.
pub fn rust_type(ty: &Ty, structs: &[StructDef], repr: Repr) -> RustLeaf {
    match ty {
        Ty::S(s) | Ty::At(s) => RustLeaf { ty: s.rust().to_string(), size: sc_size_rust(*s), align: sc_size_rust(*s) },
        Ty::V(n, s) => {
            let arr = RustLeaf { ty: format!("[{}; {}]", s.rust(), n), size: *n as u32 * sc_size_rust(*s), align: sc_size_rust(*s) };
            match repr {
                Repr::Rust => arr,
                Repr::Glam => {
                    let p = match s {
                        Sc::F32 => "Vec",
                        Sc::F64 => "DVec",
                        Sc::U32 => "UVec",
                        Sc::I32 => "IVec",
                        Sc::Bool => return arr,
                    };
                    glam_lookup(&format!("glam::{p}{n}"))
                }
                Repr::Nalgebra => RustLeaf { ty: format!("nalgebra::SVector<{}, {}>", s.rust(), n), size: arr.size, align: arr.align },
            }
        }
        Ty::M { c, r, s } => {
            // Plain-array matrices: the repository's snapshots pin matCxR<f32> -> [[f32; C]; R].
            // C06's statement demands scalar and the element-count multiset; the TypeId probe below
            // therefore accepts either orientation for non-square shapes (see props::c06).
            let arr = RustLeaf {
                ty: format!("[[{}; {}]; {}]", s.rust(), c, r),
                size: *c as u32 * *r as u32 * sc_size_rust(*s),
                align: sc_size_rust(*s),
            };
            match repr {
                Repr::Rust => arr,
                Repr::Glam => {
                    if c == r {
                        let p = if *s == Sc::F64 { "DMat" } else { "Mat" };
                        glam_lookup(&format!("glam::{p}{c}"))
                    } else {
                        arr
                    }
                }
                Repr::Nalgebra => RustLeaf { ty: format!("nalgebra::SMatrix<{}, {}, {}>", s.rust(), r, c), size: arr.size, align: arr.align },
            }
        }
        Ty::A(e, n) => {
            let el = rust_type(e, structs, repr);
            RustLeaf { ty: format!("[{}; {}]", el.ty, n), size: el.size.saturating_mul(*n), align: el.align }
        }
        Ty::RA(e) => {
            let el = rust_type(e, structs, repr);
            RustLeaf { ty: format!("Vec<{}>", el.ty), size: 24, align: 8 }
        }
        Ty::St(i) => {
            let sl = rust_struct_layout(&structs[*i], structs, repr);
            RustLeaf { ty: structs[*i].name.clone(), size: sl.size, align: sl.align }
        }
    }
}

#[derive(Clone, Debug, PartialEq, Eq)]
pub struct RustStructLayout {
    pub size: u32,
    pub align: u32,
    /// offsets of the emitted (non-builtin) members, in order
    pub offsets: Vec<u32>,
    pub has_padding: bool,
}

/// repr(C) layout of the struct the generator is expected to emit (builtin members dropped).
pub fn rust_struct_layout(sd: &StructDef, structs: &[StructDef], repr: Repr) -> RustStructLayout {
    let mut off = 0u32;
    let mut align = 1u32;
    let mut offsets = Vec::new();
    let mut padding = false;
    for m in sd.members.iter().filter(|m| !matches!(m.io, Io::Builtin(_))) {
        let l = rust_type(&m.ty, structs, repr);
        let o = round_up(l.align, off);
        if o != off {
            padding = true;
        }
        // nested padding
        if rust_type_has_padding(&m.ty, structs, repr) {
            padding = true;
        }
        offsets.push(o);
        off = o.saturating_add(l.size);
        align = align.max(l.align);
    }
    let size = round_up(align, off);
    if size != off {
        padding = true;
    }
    RustStructLayout { size, align, offsets, has_padding: padding }
}

fn rust_type_has_padding(ty: &Ty, structs: &[StructDef], repr: Repr) -> bool {
    match ty {
        Ty::A(e, _) => rust_type_has_padding(e, structs, repr),
        Ty::St(i) => rust_struct_layout(&structs[*i], structs, repr).has_padding,
        _ => false,
    }
}

#[cfg(test)]
mod tests {
    use super::*;
    #[test]
    fn spec_examples() {
        // WGSL spec example struct A { u: f32, v: f32, w: vec2<f32>, x: f32 } size 24 align 8
        let a = StructDef {
            name: "A".into(),
            members: vec![
                Member::plain("u", Ty::S(Sc::F32)),
                Member::plain("v", Ty::S(Sc::F32)),
                Member::plain("w", Ty::V(2, Sc::F32)),
                Member::plain("x", Ty::S(Sc::F32)),
            ],
        };
        let sl = wgsl_struct_layout(&a, &[]);
        assert_eq!((sl.size, sl.align, sl.offsets.clone()), (24, 8, vec![0, 4, 8, 16]));
        // struct B { a: vec2, b: vec3, c: f32, d: f32, e: A, f: vec3, g: array<A,3>, h: i32 } size 160 align 16
        let structs = vec![a];
        let b = StructDef {
            name: "B".into(),
            members: vec![
                Member::plain("a", Ty::V(2, Sc::F32)),
                Member::plain("b", Ty::V(3, Sc::F32)),
                Member::plain("c", Ty::S(Sc::F32)),
                Member::plain("d", Ty::S(Sc::F32)),
                Member::plain("e", Ty::St(0)),
                Member::plain("f", Ty::V(3, Sc::F32)),
                Member::plain("g", Ty::A(Box::new(Ty::St(0)), 3)),
                Member::plain("h", Ty::S(Sc::I32)),
            ],
        };
        let sl = wgsl_struct_layout(&b, &structs);
        assert_eq!(sl.offsets, vec![0, 16, 28, 32, 40, 64, 80, 152]);
        assert_eq!((sl.size, sl.align), (160, 16));
        assert_eq!(wgsl_layout(&Ty::M { c: 3, r: 3, s: Sc::F32 }, &[]), Layout { size: 48, align: 16 });
        assert_eq!(wgsl_layout(&Ty::M { c: 4, r: 2, s: Sc::F32 }, &[]), Layout { size: 32, align: 8 });
    }
}
