//! Reference semantics derived from the model: what the statements of the properties say the
//! generated module must contain, computed on the generator AST only.

use crate::model::*;
use std::collections::{BTreeMap, BTreeSet};

pub fn declared_order(sh: &Shader) -> Vec<usize> {
    if sh.global_order.len() == sh.globals.len() {
        sh.global_order.clone()
    } else {
        (0..sh.globals.len()).collect()
    }
}

/// group -> resource globals in declaration order
pub fn groups(sh: &Shader) -> BTreeMap<u32, Vec<usize>> {
    let mut m: BTreeMap<u32, Vec<usize>> = BTreeMap::new();
    for gi in declared_order(sh) {
        if let Some((g, _)) = sh.globals[gi].binding {
            m.entry(g).or_default().push(gi);
        }
    }
    m
}

/// globals directly accessed by a statement list (incl. partners)
fn direct(stmts: &[Stmt], globals: &mut BTreeSet<usize>, calls: &mut BTreeSet<usize>) {
    walk_stmts(
        stmts,
        &mut |s, _| match s {
            Stmt::Acc(a) => {
                globals.insert(a.g);
                if let Some(p) = a.partner {
                    globals.insert(p);
                }
            }
            Stmt::Call { f, .. } => {
                calls.insert(*f);
            }
            _ => {}
        },
        0,
    );
}

/// For every helper function: the set of globals it reaches directly or through calls.
pub fn func_reach(sh: &Shader) -> Vec<BTreeSet<usize>> {
    let mut out: Vec<BTreeSet<usize>> = Vec::new();
    for f in &sh.funcs {
        let mut g = BTreeSet::new();
        let mut c = BTreeSet::new();
        direct(&f.body, &mut g, &mut c);
        for callee in c {
            // helpers only call lower-numbered helpers (DAG by construction)
            if callee < out.len() {
                g.extend(out[callee].iter().copied());
            }
        }
        out.push(g);
    }
    out
}

pub fn entry_reach(sh: &Shader) -> Vec<BTreeSet<usize>> {
    let fr = func_reach(sh);
    sh.entries
        .iter()
        .map(|e| {
            let mut g = BTreeSet::new();
            let mut c = BTreeSet::new();
            direct(&e.body, &mut g, &mut c);
            for callee in c {
                g.extend(fr[callee].iter().copied());
            }
            g
        })
        .collect()
}

/// stage bits (VERTEX=1, FRAGMENT=2, COMPUTE=4) per global: the stages owning an entry point that
/// statically accesses the variable.
pub fn expected_visibility(sh: &Shader) -> Vec<u32> {
    let er = entry_reach(sh);
    let mut v = vec![0u32; sh.globals.len()];
    for (e, set) in sh.entries.iter().zip(er.iter()) {
        for g in set {
            v[*g] |= e.stage.bit();
        }
    }
    v
}

/// longest call chain (number of calls) through which an entry reaches global g, and whether some
/// access sits in nested control flow
pub fn reach_depth(sh: &Shader) -> (usize, bool) {
    // depth of helper DAG
    let mut depth = vec![0usize; sh.funcs.len()];
    let mut nested = false;
    for (i, f) in sh.funcs.iter().enumerate() {
        let mut d = 0;
        walk_stmts(
            &f.body,
            &mut |s, lvl| {
                match s {
                    Stmt::Call { f: c, .. } if *c < i => d = d.max(depth[*c] + 1),
                    Stmt::Acc(_) if lvl >= 1 => nested = true,
                    _ => {}
                }
            },
            0,
        );
        depth[i] = d;
    }
    let mut max = 0;
    for e in &sh.entries {
        walk_stmts(
            &e.body,
            &mut |s, lvl| match s {
                Stmt::Call { f: c, .. } => max = max.max(depth[*c] + 1),
                Stmt::Acc(_) if lvl >= 1 => nested = true,
                _ => {}
            },
            0,
        );
    }
    (max, nested)
}

/// structs reachable from the type of any module-scope variable (members, arrays, runtime arrays)
pub fn host_shareable(sh: &Shader) -> BTreeSet<usize> {
    let mut v = Vec::new();
    for g in &sh.globals {
        if let GKind::Buf { ty, .. } = &g.kind {
            ty.contains_struct(&mut v, &sh.structs);
        }
    }
    v.into_iter().collect()
}

pub fn entry_param_structs(sh: &Shader) -> BTreeSet<usize> {
    let mut s = BTreeSet::new();
    for e in &sh.entries {
        for p in &e.params {
            if let EParam::Struct { st, .. } = p {
                s.insert(*st);
            }
        }
    }
    s
}

pub fn entry_result_structs(sh: &Shader) -> BTreeSet<usize> {
    sh.entries.iter().filter_map(|e| if let EResult::Struct(i) = &e.result { Some(*i) } else { None }).collect()
}

/// C08: emitted iff reachable from a module-scope variable's type, or (entry parameter and not an
/// entry result).
pub fn emitted_structs(sh: &Shader) -> BTreeSet<usize> {
    let host = host_shareable(sh);
    let params = entry_param_structs(sh);
    let results = entry_result_structs(sh);
    (0..sh.structs.len()).filter(|i| host.contains(i) || (params.contains(i) && !results.contains(i))).collect()
}

/// vertex input structs: struct parameters of vertex entry points, de-duplicated
pub fn vertex_input_structs(sh: &Shader) -> BTreeSet<usize> {
    let mut s = BTreeSet::new();
    for e in sh.entries.iter().filter(|e| e.stage == Stage::Vertex) {
        for p in &e.params {
            if let EParam::Struct { st, .. } = p {
                s.insert(*st);
            }
        }
    }
    s
}

pub fn ends_in_rt_array(sd: &StructDef) -> bool {
    sd.members.iter().any(|m| matches!(m.ty, Ty::RA(_)))
}

/// Rust path of a WGSL identifier used as a Rust identifier (names are generated to be valid in both)
pub fn rid(name: &str) -> String {
    // a WGSL name that is a Rust keyword is the raw identifier of that name
    const KW: [&str; 6] = ["in", "dyn", "box", "async", "await", "try"];
    if KW.contains(&name) {
        format!("r#{name}")
    } else {
        name.to_string()
    }
}

/// Options for properties that do not study derives: every derive off, except encase when some
/// emitted struct ends in a runtime-sized array (the generator documents a panic otherwise).
/// encase 0.10 has no f64/bool support, so a shader needing encase whose host-shareable structs
/// contain f64 or bool cannot compile under any option set that generates it: None (excluded).
pub fn plain_opts(sh: &Shader) -> Option<crate::sut::Opts> {
    let emitted = emitted_structs(sh);
    let needs_encase = emitted.iter().any(|i| ends_in_rt_array(&sh.structs[*i]));
    if needs_encase {
        let host = host_shareable(sh);
        let bad = host.iter().any(|i| Ty::St(*i).has_scalar(Sc::F64, &sh.structs) || Ty::St(*i).has_scalar(Sc::Bool, &sh.structs));
        if bad {
            return None;
        }
    }
    Some(crate::sut::Opts { encase_host: needs_encase, ..Default::default() })
}

// ---------------------------------------------------------------------------------------------
// What the selected options mean for each emitted struct (C09 role table) and which compile
// outcomes / panics are predicted (C01, C05).

use crate::layout::{rust_struct_layout, wgsl_struct_layout, Repr};
use crate::sut::Opts;

#[derive(Clone, Debug, PartialEq, Eq)]
pub struct StructRole {
    pub index: usize,
    pub host: bool,
    pub rt: bool,
    pub pod: bool,
    pub shader_type: bool,
    pub serde: bool,
    pub asserts: bool,
}

pub fn struct_roles(sh: &Shader, o: &Opts) -> Vec<StructRole> {
    let host = host_shareable(sh);
    emitted_structs(sh)
        .into_iter()
        .map(|i| {
            let h = host.contains(&i);
            StructRole {
                index: i,
                host: h,
                rt: ends_in_rt_array(&sh.structs[i]),
                pod: (h && o.bytemuck_host) || (!h && o.bytemuck_vertex),
                shader_type: h && o.encase_host,
                serde: o.serde,
                asserts: h && o.bytemuck_host,
            }
        })
        .collect()
}

/// The documented panics: a runtime-sized array field without encase, or with bytemuck on that struct.
pub fn predicted_panic(sh: &Shader, o: &Opts) -> Option<&'static str> {
    for r in struct_roles(sh, o) {
        if r.rt && !o.encase_host {
            return Some("Runtime-sized array fields are only supported with encase");
        }
        if r.rt && r.pod {
            return Some("Runtime-sized array fields are not supported with bytemuck");
        }
    }
    None
}

#[derive(Clone, Debug, PartialEq, Eq)]
pub enum CompileOutcome {
    Compiles,
    /// bytemuck's derive(Pod) rejects a type with padding
    PodPadding,
    /// a generated layout assertion fails (Rust layout != WGSL layout)
    AssertMismatch,
    /// no possible output could compile: the external crate has no such impl (domain exclusion)
    Unsupported(&'static str),
}

fn emitted_member_tys<'a>(sd: &'a StructDef) -> impl Iterator<Item = &'a Member> {
    sd.members.iter().filter(|m| !matches!(m.io, Io::Builtin(_)))
}

pub fn predict_struct(sh: &Shader, r: &StructRole, o: &Opts) -> CompileOutcome {
    let sd = &sh.structs[r.index];
    let has = |sc: Sc| emitted_member_tys(sd).any(|m| m.ty.has_scalar(sc, &sh.structs));
    if r.shader_type && emitted_member_tys(sd).next().is_none() {
        return CompileOutcome::Unsupported("encase cannot derive ShaderType for a struct without fields");
    }
    if r.shader_type && (has(Sc::F64) || has(Sc::Bool)) {
        return CompileOutcome::Unsupported("encase 0.10 has no f64/bool");
    }
    if r.pod && has(Sc::Bool) {
        return CompileOutcome::Unsupported("bool is not Pod");
    }
    if r.serde && emitted_member_tys(sd).any(|m| m.ty.max_array_len(&sh.structs) > 32) {
        return CompileOutcome::Unsupported("serde implements arrays up to 32");
    }
    if r.pod {
        let rl = rust_struct_layout(sd, &sh.structs, o.repr);
        if rl.has_padding {
            return CompileOutcome::PodPadding;
        }
    }
    if r.asserts {
        let rl = rust_struct_layout(sd, &sh.structs, o.repr);
        let wl = wgsl_struct_layout(sd, &sh.structs);
        let woff: Vec<u32> = sd.members.iter().zip(wl.offsets.iter()).filter(|(m, _)| !matches!(m.io, Io::Builtin(_))).map(|(_, o)| *o).collect();
        if rl.offsets != woff || rl.size != wl.size {
            return CompileOutcome::AssertMismatch;
        }
    }
    CompileOutcome::Compiles
}

pub fn predict_module(sh: &Shader, o: &Opts) -> Vec<(StructRole, CompileOutcome)> {
    struct_roles(sh, o).into_iter().map(|r| {
        let c = predict_struct(sh, &r, o);
        (r, c)
    }).collect()
}

pub fn repr_name(r: Repr) -> &'static str {
    match r {
        Repr::Rust => "rust",
        Repr::Glam => "glam",
        Repr::Nalgebra => "nalgebra",
    }
}

/// Pick derive switches for which the model predicts a compiling module and no documented panic:
/// start from `bits` and clear switches until the prediction is clean (bh, bv, se, then en when no
/// runtime array needs it). None if even the minimal set cannot compile (counted as excluded).
pub fn compiling_opts(sh: &Shader, bits: u32, repr: Repr) -> Option<Opts> {
    let clean = |o: &Opts| predicted_panic(sh, o).is_none() && predict_module(sh, o).iter().all(|(_, c)| *c == CompileOutcome::Compiles);
    let mut o = Opts::from_bits(bits, repr);
    let needs_encase = emitted_structs(sh).iter().any(|i| ends_in_rt_array(&sh.structs[*i]));
    if needs_encase {
        o.encase_host = true;
    }
    for step in 0..5 {
        if clean(&o) {
            return Some(o);
        }
        match step {
            0 => o.bytemuck_host = false,
            1 => o.bytemuck_vertex = false,
            2 => o.serde = false,
            3 => {
                if !needs_encase {
                    o.encase_host = false
                }
            }
            _ => {}
        }
    }
    if clean(&o) {
        Some(o)
    } else {
        None
    }
}
