//! Independent validators: the unmodified `wgpu_core::validation::Interface::check_stage` of
//! wgpu-core 24.0.5 driven with *provided* bind group layouts, and the bind-group-layout entry rules
//! of `Device::create_bind_group_layout` (pub(crate), needs a live device) transcribed from
//! wgpu-core-24.0.5/src/device/resource.rs for a device with every feature and downlevel flag.

use wgpu_core::validation::{BindingLayoutSource, Interface, StageError, StageIo};
use wgpu_types as wgt;

pub fn limits() -> wgt::Limits {
    let mut l = wgt::Limits::default();
    l.max_bind_groups = 8;
    l.max_bindings_per_bind_group = u32::MAX;
    l.max_compute_invocations_per_workgroup = u32::MAX;
    l.max_compute_workgroup_size_x = u32::MAX;
    l.max_compute_workgroup_size_y = u32::MAX;
    l.max_compute_workgroup_size_z = u32::MAX;
    l.max_vertex_attributes = 64;
    l.max_vertex_buffers = 16;
    l.max_vertex_buffer_array_stride = u32::MAX;
    l.max_inter_stage_shader_components = u32::MAX;
    l.max_color_attachments = 8;
    l.max_push_constant_size = u32::MAX;
    l
}

pub fn stage_bit(s: naga::ShaderStage) -> wgt::ShaderStages {
    match s {
        naga::ShaderStage::Vertex => wgt::ShaderStages::VERTEX,
        naga::ShaderStage::Fragment => wgt::ShaderStages::FRAGMENT,
        naga::ShaderStage::Compute => wgt::ShaderStages::COMPUTE,
    }
}

pub struct StageResult {
    pub entry: String,
    pub stage: naga::ShaderStage,
    /// Err(description) only for errors that concern resource bindings
    pub binding_result: Result<(), String>,
    /// the complete result (Debug) for the record
    pub full: String,
}

/// Run check_stage for every entry point with `layouts[g]` = entries of group g in pipeline-layout
/// order. `vertex_inputs(entry name)` supplies provided vertex attributes (location, format).
pub fn check_all_stages(
    module: &naga::Module,
    info: &naga::valid::ModuleInfo,
    layouts: &[Vec<wgt::BindGroupLayoutEntry>],
    vertex_inputs: &dyn Fn(&str) -> Option<Vec<(u32, wgt::VertexFormat)>>,
) -> Vec<StageResult> {
    let lim = limits();
    let iface = Interface::new(module, info, lim.clone());
    // EntryMap is unnameable from outside wgpu-core; obtain default maps through new_derived
    let derived = BindingLayoutSource::new_derived(&lim);
    let BindingLayoutSource::Derived(mut maps) = derived else { unreachable!() };
    for (g, entries) in layouts.iter().enumerate().take(8) {
        for e in entries {
            maps[g].entry(e.binding).or_insert(*e);
        }
    }
    for m in maps.iter_mut() {
        m.sort();
    }
    let mut out = Vec::new();
    for ep in &module.entry_points {
        let mut provided = arrayvec::ArrayVec::new();
        for m in maps.iter().take(layouts.len().min(8)) {
            provided.push(m);
        }
        let mut src = BindingLayoutSource::Provided(provided);
        let mut sizes = Default::default();
        let mut inputs = StageIo::default();
        let mut have_inputs = false;
        if ep.stage == naga::ShaderStage::Vertex {
            if let Some(v) = vertex_inputs(&ep.name) {
                have_inputs = true;
                for (loc, fmt) in v {
                    inputs.insert(loc, wgpu_core::validation::InterfaceVar::vertex_attribute(fmt));
                }
            }
        }
        let r = iface.check_stage(&mut src, &mut sizes, &ep.name, stage_bit(ep.stage), inputs, None);
        let full = match &r {
            Ok(_) => "Ok".to_string(),
            Err(e) => format!("{e:?}"),
        };
        let binding_result = match &r {
            Ok(_) => Ok(()),
            Err(StageError::Binding(b, e)) => Err(format!("@group({}) @binding({}): {e} [{e:?}]", b.group, b.binding)),
            Err(e @ StageError::Filtering { .. }) => Err(format!("{e} [{e:?}]")),
            Err(e @ StageError::MissingEntryPoint(_)) => Err(format!("{e}")),
            // inputs are checked after all bindings: an input error means the bindings passed
            Err(StageError::Input { .. }) if !have_inputs => Ok(()),
            Err(e @ StageError::Input { .. }) => Err(format!("vertex input: {e} [{e:?}]")),
            Err(_) => Ok(()),
        };
        out.push(StageResult { entry: ep.name.clone(), stage: ep.stage, binding_result, full });
    }
    out
}

/// Entry rules of Device::create_bind_group_layout (all features / downlevel flags on) and of
/// bgl::EntryMap::from_entries (duplicate binding). Device capacity limits are deliberately not
/// part of this.
pub fn bgl_entry_rules(entries: &[wgt::BindGroupLayoutEntry]) -> Result<(), String> {
    use wgt::BindingType as Bt;
    let mut seen = std::collections::BTreeSet::new();
    for e in entries {
        if !seen.insert(e.binding) {
            return Err(format!("ConflictBinding({})", e.binding));
        }
        match e.ty {
            Bt::Texture { multisampled: true, sample_type: wgt::TextureSampleType::Float { filterable: true }, .. } => {
                return Err(format!("binding {}: SampleTypeFloatFilterableBindingMultisampled", e.binding));
            }
            Bt::Texture { multisampled, view_dimension, .. } => {
                if multisampled && view_dimension != wgt::TextureViewDimension::D2 {
                    return Err(format!("binding {}: Non2DMultisampled({view_dimension:?})", e.binding));
                }
            }
            Bt::StorageTexture { view_dimension, .. } => {
                if matches!(view_dimension, wgt::TextureViewDimension::Cube | wgt::TextureViewDimension::CubeArray) {
                    return Err(format!("binding {}: StorageTextureCube", e.binding));
                }
            }
            _ => {}
        }
        if e.count.is_some() && matches!(e.ty, Bt::AccelerationStructure) {
            return Err(format!("binding {}: ArrayUnsupported", e.binding));
        }
        if e.visibility | wgt::ShaderStages::all() != wgt::ShaderStages::all() {
            return Err(format!("binding {}: InvalidVisibility({:?})", e.binding, e.visibility));
        }
    }
    Ok(())
}

/// Vertex buffer rules of Device::create_render_pipeline (wgpu-core 24.0.5 device/resource.rs),
/// transcribed: stride alignment, attribute end within stride, attribute offset alignment, no
/// shader-location clash across the buffers of one pipeline.
pub fn vertex_buffer_rules(buffers: &[(u64, Vec<(wgt::VertexFormat, u64, u32)>)]) -> Result<(), String> {
    let mut locs = std::collections::BTreeSet::new();
    for (i, (stride, attrs)) in buffers.iter().enumerate() {
        if stride % wgt::VERTEX_STRIDE_ALIGNMENT != 0 {
            return Err(format!("buffer {i}: UnalignedVertexStride {{ stride: {stride} }}"));
        }
        for (fmt, offset, loc) in attrs {
            if offset + fmt.size() > *stride && *stride != 0 {
                return Err(format!("buffer {i}: attribute at location {loc} ends at {} beyond the stride {stride} (VertexAttributeStrideTooSmall)", offset + fmt.size()));
            }
            if *stride == 0 && offset + fmt.size() > limits().max_vertex_buffer_array_stride as u64 {
                return Err(format!("buffer {i}: attribute at location {loc} beyond the maximum stride"));
            }
            let align = fmt.size().min(4);
            if offset % align != 0 {
                return Err(format!("buffer {i}: attribute at location {loc} has offset {offset} not aligned to {align} (InvalidVertexAttributeOffset)"));
            }
            if !locs.insert(*loc) {
                return Err(format!("ShaderLocationClash({loc})"));
            }
        }
    }
    Ok(())
}

/// check_stage of one vertex entry point with derived bind group layouts (so that only the vertex
/// inputs are judged) and the given attributes as provided inputs.
pub fn check_vertex_inputs(module: &naga::Module, info: &naga::valid::ModuleInfo, entry: &str, inputs: &[(u32, wgt::VertexFormat)]) -> Result<(), String> {
    let lim = limits();
    let iface = Interface::new(module, info, lim.clone());
    let mut src = BindingLayoutSource::new_derived(&lim);
    let mut sizes = Default::default();
    let mut io = StageIo::default();
    for (loc, fmt) in inputs {
        io.insert(*loc, wgpu_core::validation::InterfaceVar::vertex_attribute(*fmt));
    }
    match iface.check_stage(&mut src, &mut sizes, entry, wgt::ShaderStages::VERTEX, io, None) {
        Ok(_) => Ok(()),
        Err(e @ StageError::Input { .. }) => Err(format!("{e} [{e:?}]")),
        Err(e @ StageError::MissingEntryPoint(_)) => Err(format!("{e}")),
        // anything else concerns bindings or limits, not vertex inputs
        Err(_) => Ok(()),
    }
}
