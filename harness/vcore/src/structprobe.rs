//! Probe code that observes the compiled structs: size, alignment, field offsets, field order and
//! names (Debug of a zeroed value), field types (TypeId by inference), trait implementations
//! (inherent-const-over-trait-default probing), plus the glam leaf table re-measurement.

use crate::expect;
use crate::layout::*;
use crate::model::*;
use std::fmt::Write;

pub const PRELUDE: &str = r#"
use std::any::TypeId;
use std::marker::PhantomData;
fn z<T>() -> T { unsafe { std::mem::zeroed() } }
fn ty_of<S: 'static, F: 'static>(_: fn(&S) -> &F) -> TypeId { TypeId::of::<F>() }
struct Probe<T>(PhantomData<T>);
trait Fallback {
    const DEBUG: bool = false; const CLONE: bool = false; const COPY: bool = false; const PARTIAL_EQ: bool = false;
    const POD: bool = false; const ZEROABLE: bool = false; const SHADER_TYPE: bool = false; const SERIALIZE: bool = false; const DESERIALIZE: bool = false;
}
impl<T> Fallback for Probe<T> {}
impl<T: std::fmt::Debug> Probe<T> { const DEBUG: bool = true; }
impl<T: Clone> Probe<T> { const CLONE: bool = true; }
impl<T: Copy> Probe<T> { const COPY: bool = true; }
impl<T: PartialEq> Probe<T> { const PARTIAL_EQ: bool = true; }
impl<T: bytemuck::Pod> Probe<T> { const POD: bool = true; }
impl<T: bytemuck::Zeroable> Probe<T> { const ZEROABLE: bool = true; }
impl<T: encase::ShaderType> Probe<T> { const SHADER_TYPE: bool = true; }
impl<T: serde::Serialize> Probe<T> { const SERIALIZE: bool = true; }
impl<T: serde::de::DeserializeOwned> Probe<T> { const DESERIALIZE: bool = true; }
fn depth1_fields(dbg: &str) -> Vec<String> {
    // names before ':' at nesting depth 1 of a derive(Debug) rendering
    let mut out = Vec::new();
    let mut depth = 0i32;
    let mut cur = String::new();
    let mut in_str = false;
    for c in dbg.chars() {
        if in_str { if c == '"' { in_str = false; } continue; }
        match c {
            '"' => in_str = true,
            '{' | '[' | '(' => { depth += 1; cur.clear(); }
            '}' | ']' | ')' => { depth -= 1; cur.clear(); }
            ':' if depth == 1 => { out.push(cur.trim().to_string()); cur.clear(); }
            ',' => cur.clear(),
            c if depth == 1 => cur.push(c),
            _ => {}
        }
    }
    out
}
fn glam_table() -> serde_json::Value {
    macro_rules! t { ($($n:literal => $t:ty),*) => { serde_json::json!([$([$n, std::mem::size_of::<$t>(), std::mem::align_of::<$t>()]),*]) } }
    t!("glam::Vec2" => glam::Vec2, "glam::Vec3" => glam::Vec3, "glam::Vec4" => glam::Vec4, "glam::DVec2" => glam::DVec2, "glam::DVec3" => glam::DVec3, "glam::DVec4" => glam::DVec4,
       "glam::UVec2" => glam::UVec2, "glam::UVec3" => glam::UVec3, "glam::UVec4" => glam::UVec4, "glam::IVec2" => glam::IVec2, "glam::IVec3" => glam::IVec3, "glam::IVec4" => glam::IVec4,
       "glam::Mat2" => glam::Mat2, "glam::Mat3" => glam::Mat3, "glam::Mat4" => glam::Mat4, "glam::DMat2" => glam::DMat2, "glam::DMat3" => glam::DMat3, "glam::DMat4" => glam::DMat4)
}
"#;

/// Rust type expression for a model type, with struct names qualified by `prefix`.
pub fn rust_ty_expr(ty: &Ty, structs: &[StructDef], repr: Repr, prefix: &str) -> String {
    match ty {
        Ty::A(e, n) => format!("[{}; {}]", rust_ty_expr(e, structs, repr, prefix), n),
        Ty::RA(e) => format!("Vec<{}>", rust_ty_expr(e, structs, repr, prefix)),
        Ty::St(i) => format!("{prefix}::{}", expect::rid(&structs[*i].name)),
        other => rust_type(other, structs, repr).ty,
    }
}

/// alternative accepted type for plain-array matrices (other orientation), see DESIGN C06
pub fn rust_ty_alt(ty: &Ty, structs: &[StructDef], repr: Repr, prefix: &str) -> Option<String> {
    match ty {
        Ty::M { c, r, s } if c != r => {
            let is_array = rust_type(ty, structs, repr).ty.starts_with('[');
            if is_array {
                Some(format!("[[{}; {}]; {}]", s.rust(), r, c))
            } else {
                None
            }
        }
        Ty::A(e, n) => rust_ty_alt(e, structs, repr, prefix).map(|a| format!("[{a}; {n}]")),
        Ty::RA(e) => rust_ty_alt(e, structs, repr, prefix).map(|a| format!("Vec<{a}>")),
        _ => None,
    }
}

pub fn emitted_members(sd: &StructDef) -> Vec<&Member> {
    sd.members.iter().filter(|m| !matches!(m.io, Io::Builtin(_))).collect()
}

/// code that inserts facts about struct `si` into `structs` (a serde_json::Map)
pub fn struct_facts(sh: &Shader, si: usize, repr: Repr, with_traits: bool) -> String {
    let sd = &sh.structs[si];
    let name = expect::rid(&sd.name);
    let path = format!("CASEMOD::{name}");
    let mems = emitted_members(sd);
    let mut s = String::new();
    writeln!(s, "    {{\n        let mut m = serde_json::Map::new();").unwrap();
    writeln!(s, "        m.insert(\"size\".into(), json!(std::mem::size_of::<{path}>()));\n        m.insert(\"align\".into(), json!(std::mem::align_of::<{path}>()));").unwrap();
    let offs: Vec<String> = mems.iter().map(|m| format!("std::mem::offset_of!({path}, {})", expect::rid(&m.name))).collect();
    writeln!(s, "        let offs: Vec<usize> = vec![{}];\n        m.insert(\"offsets\".into(), json!(offs));", offs.join(", ")).unwrap();
    // field types
    let mut tys = Vec::new();
    for mm in &mems {
        let want = rust_ty_expr(&mm.ty, &sh.structs, repr, "CASEMOD");
        let alt = rust_ty_alt(&mm.ty, &sh.structs, repr, "CASEMOD");
        let f = expect::rid(&mm.name);
        let cmp = match alt {
            Some(a) => format!("{{ let t = ty_of::<{path}, _>(|s| &s.{f}); t == TypeId::of::<{want}>() || t == TypeId::of::<{a}>() }}"),
            None => format!("ty_of::<{path}, _>(|s| &s.{f}) == TypeId::of::<{want}>()"),
        };
        tys.push(cmp);
    }
    writeln!(s, "        let tys: Vec<bool> = vec![{}];\n        m.insert(\"type_ok\".into(), json!(tys));", tys.join(", ")).unwrap();
    // exhaustive literal + Debug order
    let mut lit = String::new();
    for mm in &mems {
        let f = expect::rid(&mm.name);
        if matches!(mm.ty, Ty::RA(_)) {
            write!(lit, "{f}: Vec::new(), ").unwrap();
        } else {
            write!(lit, "{f}: z(), ").unwrap();
        }
    }
    writeln!(s, "        let v = {path} {{ {lit}}};\n        m.insert(\"debug_fields\".into(), json!(depth1_fields(&format!(\"{{:?}}\", v))));").unwrap();
    if with_traits {
        for (k, c) in [
            ("Debug", "DEBUG"),
            ("Clone", "CLONE"),
            ("Copy", "COPY"),
            ("PartialEq", "PARTIAL_EQ"),
            ("Pod", "POD"),
            ("Zeroable", "ZEROABLE"),
            ("ShaderType", "SHADER_TYPE"),
            ("Serialize", "SERIALIZE"),
            ("Deserialize", "DESERIALIZE"),
        ] {
            writeln!(s, "        m.insert(\"{k}\".into(), json!(Probe::<{path}>::{c}));").unwrap();
        }
    }
    writeln!(s, "        structs.insert({:?}.into(), m.into());\n    }}", sd.name).unwrap();
    s
}

pub fn probe_source(sh: &Shader, repr: Repr, with_traits: bool) -> String {
    let mut s = String::new();
    s.push_str("use super::*;\nuse serde_json::json;\n");
    s.push_str(PRELUDE);
    s.push_str("pub fn probe() -> serde_json::Value {\n    let mut structs = serde_json::Map::new();\n");
    for si in expect::emitted_structs(sh) {
        s.push_str(&struct_facts(sh, si, repr, with_traits));
    }
    s.push_str("    json!({\"structs\": structs, \"glam\": glam_table()})\n}\n");
    s
}

/// harness self-check: the glam leaf table used by the Rust layout model equals what the compiled
/// crates report. A mismatch is a harness error (exit 2).
pub fn check_glam_table(obs: &serde_json::Value) {
    if let Some(a) = obs["glam"].as_array() {
        for e in a {
            let n = e[0].as_str().unwrap_or("");
            let (sz, al) = (e[1].as_u64().unwrap_or(0) as u32, e[2].as_u64().unwrap_or(0) as u32);
            if let Some((_, s, a)) = GLAM_TABLE.iter().find(|(x, _, _)| *x == n) {
                if *s != sz || *a != al {
                    eprintln!("HARNESS-DEFECT: glam leaf table says {n} is ({s},{a}) but the compiled crate reports ({sz},{al})");
                    std::process::exit(2);
                }
            }
        }
    }
}
