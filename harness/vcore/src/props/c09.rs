//! C09 — derives and repr follow the write options exactly.

use crate::chooser::{hash_str, Ch};
use crate::engine::*;
use crate::exec::*;
use crate::expect::{self, StructRole};
use crate::gen::{gen_shader, Profile, TyProfile};
use crate::layout::Repr;
use crate::model::*;
use crate::outread::{self, norm_tokens, Out};
use crate::preflight;
use crate::props::c06::REPRS;
use crate::render::render;
use crate::structprobe;
use crate::sut::*;
use serde_json::{json, Value};
use std::collections::BTreeSet;

pub struct C09;

pub fn profile() -> Profile {
    let mut p = Profile::base();
    p.host_structs = (1, 3);
    p.members = (1, 4);
    p.ty = TyProfile::full();
    p.ty.f64_ = false;
    p.ty.friendly = 5;
    // arrays beyond serde's 32-element limit occur too (wide width reads derive lists without compiling)
    p.ty.max_array = 40;
    p.groups = (0, 2);
    p.bindings = (1, 3);
    p.w_buf = 8;
    p.w_tex = 1;
    p.w_samp = 0;
    p.w_stex = 0;
    p.funcs = (0, 1);
    p.stmts = (0, 1);
    p.entries = [(0, 2), (0, 1), (0, 1)];
    p.io_structs = true;
    p.vertex_struct_params = (0, 2);
    p.push = 1;
    p.private = 2;
    p.workgroup = 1;
    p.unused_structs = (0, 1);
    p.vin_as_storage = 3;
    p.keyword_names = 1;
    p.overrides = 3;
    p.ov_sized_array = 5;
    p.struct_helpers = 2;
    p
}

fn last_seg(p: &str) -> &str {
    p.rsplit("::").next().unwrap_or(p)
}

pub fn expected_derives(r: &StructRole) -> BTreeSet<&'static str> {
    let mut s: BTreeSet<&'static str> = ["Debug", "Clone", "PartialEq"].into_iter().collect();
    if !r.rt {
        s.insert("Copy");
    }
    if r.pod {
        s.insert("Pod");
        s.insert("Zeroable");
    }
    if r.shader_type {
        s.insert("ShaderType");
    }
    if r.serde {
        s.insert("Serialize");
        s.insert("Deserialize");
    }
    s
}

fn user_struct_names(sh: &Shader) -> BTreeSet<String> {
    sh.structs.iter().map(|s| s.name.clone()).collect()
}

/// the output with the user struct items and the layout assertions removed, as normalised tokens
fn rest_tokens(text: &str, out: &Out, names: &BTreeSet<String>) -> Result<Vec<String>, String> {
    let mut drop: Vec<(usize, usize)> = out.structs.iter().filter(|s| names.contains(&s.name)).map(|s| s.lines).collect();
    drop.extend(out.asserts.iter().map(|a| a.lines));
    let mut kept = String::new();
    for (i, l) in text.lines().enumerate() {
        let ln = i + 1;
        if !drop.iter().any(|(a, b)| *a <= ln && ln <= *b) {
            kept.push_str(l);
            kept.push('\n');
        }
    }
    norm_tokens(&kept)
}

fn struct_has_asserts(out: &Out, name: &str) -> bool {
    out.asserts.iter().any(|a| a.cond.contains(&format!("size_of::<{name}>()")) || a.cond.contains(&format!("offset_of!({name},")))
}

pub fn judge_struct_attrs(sh: &Shader, o: &Opts, out: &Out) -> Result<(), String> {
    for r in expect::struct_roles(sh, o) {
        let name = &sh.structs[r.index].name;
        let Some(os) = out.structs.iter().find(|s| &s.name == name) else {
            return Err(format!("struct `{name}` is missing from the output ({})", o.short()));
        };
        let got: BTreeSet<&str> = os.derives.iter().map(|d| last_seg(d)).collect();
        let want = expected_derives(&r);
        if got != want || os.derives.len() != want.len() {
            return Err(format!(
                "struct `{name}` (host-shareable={}, ends in runtime array={}) derives {:?} under {}; the options prescribe {:?}",
                r.host, r.rt, os.derives, o.short(), want
            ));
        }
        if os.repr_c == r.rt {
            return Err(format!("struct `{name}`: #[repr(C)] is {} although it {} in a runtime-sized array ({})", os.repr_c, if r.rt { "ends" } else { "does not end" }, o.short()));
        }
        if !os.other_attrs.is_empty() {
            return Err(format!("struct `{name}` carries unexpected attributes {:?} ({})", os.other_attrs, o.short()));
        }
        let has = struct_has_asserts(out, name);
        if has != r.asserts {
            return Err(format!("struct `{name}`: layout assertions {} although bytemuck host-shareable={} and host-shareable={} ({})", if has { "are emitted" } else { "are missing" }, o.bytemuck_host, r.host, o.short()));
        }
    }
    // no assertion for anything else
    for a in &out.asserts {
        let known = expect::struct_roles(sh, o).iter().any(|r| r.asserts && (a.cond.contains(&format!("<{}>", sh.structs[r.index].name)) || a.cond.contains(&format!("({},", sh.structs[r.index].name))));
        if !known {
            return Err(format!("a layout assertion `{}` is emitted for a struct that should have none ({})", a.cond, o.short()));
        }
    }
    Ok(())
}

pub fn judge_wide(sut: &dyn Sut, choices: &[u32], stats: &mut Stats) -> Result<(), String> {
    let mut ch = Ch::new(choices);
    let sh = gen_shader(&mut ch, &profile());
    let wgsl = render(&sh);
    if preflight::preflight(&wgsl).is_err() {
        stats.generator_invalid += 1;
        return Ok(());
    }
    let names = user_struct_names(&sh);
    let mut baseline: Option<Vec<String>> = None;
    let mut fields_by_repr: [Option<Vec<(String, Vec<(String, String)>)>>; 3] = [None, None, None];
    let mut ok_sets = 0;
    let mut roles_seen: BTreeSet<&'static str> = BTreeSet::new();
    for (ri, repr) in REPRS.iter().enumerate() {
        for bits in 0..16 {
            let o = Opts::from_bits(bits, *repr);
            let predicted = expect::predicted_panic(&sh, &o);
            let text = match sut.generate(&wgsl, None, &o) {
                Outcome::Ok(t) => t,
                Outcome::Panic(m) => {
                    if predicted.is_some() {
                        stats.class("documented_panic_option_set");
                        continue;
                    }
                    stats.sut_panic += 1;
                    stats.class(&format!("sut_panic:{}", m.chars().take(40).collect::<String>()));
                    continue;
                }
                Outcome::Err(e) => {
                    stats.skip(&format!("sut_err_{:?}", e.kind));
                    return Ok(());
                }
            };
            ok_sets += 1;
            let out = outread::read(&text).map_err(|e| format!("{e} ({})\n{wgsl}", o.short()))?;
            judge_struct_attrs(&sh, &o, &out).map_err(|m| format!("{m}\n--- source ---\n{wgsl}"))?;
            let rest = rest_tokens(&text, &out, &names)?;
            match &baseline {
                None => baseline = Some(rest),
                Some(b) => {
                    if *b != rest {
                        let i = b.iter().zip(rest.iter()).position(|(x, y)| x != y).unwrap_or(b.len().min(rest.len()));
                        let show = |t: &Vec<String>| t[i.saturating_sub(8)..(i + 8).min(t.len())].join(" ");
                        return Err(format!(
                            "option set {} changes the output outside the struct items and their layout assertions; first difference:\n  this : {}\n  first: {}\n--- source ---\n{wgsl}",
                            o.short(),
                            show(&rest),
                            show(b)
                        ));
                    }
                }
            }
            // field lists may only depend on the representation
            let fl: Vec<(String, Vec<(String, String)>)> =
                out.structs.iter().filter(|s| names.contains(&s.name)).map(|s| (s.name.clone(), s.fields.iter().map(|f| (f.name.clone(), f.ty.clone())).collect())).collect();
            match &fields_by_repr[ri] {
                None => fields_by_repr[ri] = Some(fl),
                Some(f0) => {
                    if *f0 != fl {
                        return Err(format!("derive switches {} change struct fields or field types (only the representation may)\n--- source ---\n{wgsl}", o.short()));
                    }
                }
            }
            for r in expect::struct_roles(&sh, &o) {
                let params = expect::entry_param_structs(&sh);
                let vin = expect::vertex_input_structs(&sh);
                roles_seen.insert(match (r.host, vin.contains(&r.index), params.contains(&r.index), r.rt) {
                    (_, _, _, true) => "runtime_array_terminated",
                    (true, true, _, _) => "vertex_and_host",
                    (true, false, _, _) => "host_only",
                    (false, true, _, _) => "vertex_only",
                    (false, false, true, _) => "fragment_or_compute_input",
                    _ => "other",
                });
            }
        }
    }
    stats.evaluations += 1;
    stats.extra.entry("option_sets_evaluated".into()).and_modify(|v| *v = json!(v.as_u64().unwrap_or(0) + ok_sets)).or_insert(json!(ok_sets));
    for r in &roles_seen {
        stats.class(&format!("role_{r}"));
    }
    stats.class_if(sh.structs.iter().any(|sd| sd.members.len() == 1 && matches!(sd.members[0].ty, Ty::RA(_))), "struct_with_sole_runtime_array_member");
    if roles_seen.len() >= 2 {
        stats.nontrivial_case(hash_str(&wgsl));
    }
    stats.sample(|| json!({"wgsl": wgsl, "roles": roles_seen.iter().collect::<Vec<_>>(), "option_sets": ok_sets}));
    Ok(())
}

const TRAITS: [&str; 9] = ["Debug", "Clone", "Copy", "PartialEq", "Pod", "Zeroable", "ShaderType", "Serialize", "Deserialize"];

impl ExecProp for C09 {
    fn id(&self) -> &'static str {
        "C09"
    }
    fn build(&self, choices: &[u32], _stats: &mut Stats) -> Option<Built> {
        let mut ch = Ch::new(choices);
        let head: Vec<u32> = (0..4).map(|_| ch.raw()).collect();
        let mut h = Ch::new(&head);
        let sh = gen_shader(&mut ch, &profile());
        let repr = *h.pick(&REPRS);
        let opts = expect::compiling_opts(&sh, h.below(16), repr)?;
        let wgsl = render(&sh);
        Some(Built { sh, wgsl, include_path: None, opts, extra: Value::Null, files: vec![] })
    }
    fn probe_src(&self, b: &Built) -> String {
        structprobe::probe_source(&b.sh, b.opts.repr, true)
    }
    fn observes_item(&self, kind: &str, name: &str) -> bool {
        (kind == "struct" && !matches!(name, "VertexEntry" | "FragmentEntry" | "OverrideConstants")) || (kind == "const" && name == "_")
    }
    fn judge(&self, b: &Built, text: &str, obs: &Value, _stats: &mut Stats) -> Verdict {
        for r in expect::struct_roles(&b.sh, &b.opts) {
            let name = &b.sh.structs[r.index].name;
            let m = &obs["structs"][name];
            let want = expected_derives(&r);
            for t in TRAITS {
                let got = m[t].as_bool();
                if got != Some(want.contains(t)) {
                    return Verdict::Violation(format!(
                        "struct `{name}` (host-shareable={}, runtime array={}) {} {t} under {}; the options prescribe the opposite",
                        r.host,
                        r.rt,
                        if got == Some(true) { "implements" } else { "does not implement" },
                        b.opts.short()
                    ));
                }
            }
        }
        if let Ok(out) = outread::read(text) {
            if let Err(m) = judge_struct_attrs(&b.sh, &b.opts, &out) {
                return Verdict::Violation(m);
            }
        }
        Verdict::Ok
    }
    fn nontrivial(&self, b: &Built) -> bool {
        expect::struct_roles(&b.sh, &b.opts).len() >= 2
    }
    fn classes(&self, b: &Built, stats: &mut Stats) {
        stats.class("executed_width");
        stats.class(&format!("exec_bits_bv{}_bh{}_en{}_se{}", b.opts.bytemuck_vertex as u8, b.opts.bytemuck_host as u8, b.opts.encase_host as u8, b.opts.serde as u8));
    }
}

pub fn eval_replay(sut: &dyn Sut, v: &Value) -> Result<(), String> {
    if v["kind"] == "c09wide" {
        return judge_wide(sut, &choices_from_json(v), &mut Stats::new());
    }
    eval_replay_exec(&C09, sut, v)
}

pub fn run(sut: &dyn Sut, tier: Tier) -> ! {
    preflight::quiet_panics();
    let mut run = Run::new("C09", tier);
    run.rule = "metamorphic, in-process: for every generated shader (structs in the roles vertex-only, host-only, both, fragment/compute input, runtime-array-terminated) all 16 derive-switch combinations x 3 representations are generated (48 outputs); (1) the output minus the user struct items and their layout assertions must be token-identical across all 48; (2) struct fields may depend on the representation only; (3) every struct's derive list, #[repr(C)] and layout assertions must equal the role table of the statement. Option sets for which the crate documents a panic (runtime array without encase / with bytemuck) are predicted by the model and counted. Executed width: for a sample of compiling option sets the nine traits (Debug, Clone, Copy, PartialEq, Pod, Zeroable, ShaderType, Serialize, Deserialize) are probed on the compiled structs. Non-trivial = the shader has >= 2 struct roles; distinct by wgsl.".to_string();
    let mut stats = Stats::new();
    run.canaries(&mut |v| eval_replay(sut, v));
    let cases = tier.pick(300, 10000);
    let mut j = |choices: &[u32], st: &mut Stats| judge_wide(sut, choices, st);
    let mut found = run_inprocess(run.seed_for(1), cases, (150, 700), &mut stats, &mut j);
    if found.is_none() && tier == Tier::Thorough {
        // coverage-guided search over the same choice sequences (libFuzzer, oracle in the target);
        // one execution generates 48 outputs
        found = fuzz_choices(&run, &mut stats, (150, 700), 200, 12, 1_000, &mut j);
    }
    if let Some(f) = found {
        let mut ch = Ch::new(&f.choices);
        let sh = gen_shader(&mut ch, &profile());
        run.violation(json!({"kind": "c09wide", "choices": f.choices, "wgsl": render(&sh)}), &f.message);
        run.finish(&stats);
    }
    let rounds = tier.pick(1, 4);
    let n = tier.pick(160, 800);
    for r in 0..rounds {
        if run_round(&C09, sut, &mut run, &mut stats, 100 + r as u64, n, (150, 700)) {
            break;
        }
    }
    stats.check_health("C09");
    run.finish(&stats)
}
