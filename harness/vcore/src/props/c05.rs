//! C05 — bytemuck layout checks make a compiling struct match the WGSL layout.

use crate::chooser::Ch;
use crate::engine::*;
use crate::exec::*;
use crate::expect::{self, CompileOutcome};
use crate::gen::{gen_shader, Profile, TyProfile};
use crate::layout::*;
use crate::model::*;
use crate::outread::{self, Out};
use crate::preflight;
use crate::probe::Diag;
use crate::props::c06::REPRS;
use crate::render::render;
use crate::structprobe;
use crate::sut::*;
use serde_json::{json, Value};
use std::collections::BTreeMap;

pub struct C05;

pub fn profile() -> Profile {
    let mut p = Profile::base();
    p.host_structs = (1, 2);
    p.members = (1, 5);
    p.ty = TyProfile::full();
    p.ty.rt = false;
    p.ty.friendly = 4;
    p.ty.attrs = true;
    p.ty.max_array = 4;
    p.groups = (1, 2);
    p.bindings = (1, 2);
    p.w_buf = 8;
    p.w_tex = 0;
    p.w_samp = 0;
    p.w_stex = 0;
    p.funcs = (0, 0);
    p.stmts = (0, 1);
    p.entries = [(0, 1), (0, 1), (0, 1)];
    p.io_structs = true;
    p.vertex_struct_params = (0, 2);
    // vertex input structs that are also bound as storage are host-shareable structs with @location members
    p.vin_as_storage = 5;
    p.entries = [(0, 2), (0, 1), (0, 1)];
    p.push = 1;
    p.private = 1;
    p.workgroup = 1;
    p.unused_structs = (0, 0);
    p.nonascii = 0;
    p.keyword_names = 1;
    p.overrides = 3;
    p.ov_sized_array = 5;
    p.struct_helpers = 2;
    p.ty.len_edges = 2;
    p
}

fn wgsl_numbers(sh: &Shader, si: usize) -> (Vec<(String, u32)>, u32) {
    let sd = &sh.structs[si];
    let wl = wgsl_struct_layout(sd, &sh.structs);
    let offs = sd.members.iter().zip(wl.offsets.iter()).filter(|(m, _)| !matches!(m.io, Io::Builtin(_))).map(|(m, o)| (m.name.clone(), *o)).collect();
    (offs, wl.size)
}

/// Wide part: the numbers inside the emitted assertions are the WGSL offsets and size.
pub fn judge_assert_numbers(sh: &Shader, o: &Opts, out: &Out) -> Result<(), String> {
    for r in expect::struct_roles(sh, o) {
        if !r.asserts {
            continue;
        }
        let name = &sh.structs[r.index].name;
        let (offs, size) = wgsl_numbers(sh, r.index);
        // spelling-independent reading of `<path>size_of::<Name>() == N` / `<path>offset_of!(Name, f) == N`:
        // any path prefix (std::mem, core::mem, ::core::mem, none) and either operand order
        let norm = |cond: &str| -> String {
            let mut c = cond.to_string();
            for key in ["size_of::<", "offset_of!("] {
                if let Some(i) = c.find(key) {
                    // drop the path in front of the key (identifier characters and `::`)
                    let start = c[..i].rfind(|ch: char| !(ch.is_alphanumeric() || ch == '_' || ch == ':')).map(|p| p + 1).unwrap_or(0);
                    c.replace_range(start..i, "");
                }
            }
            match c.split_once("==") {
                Some((l, r)) if l.chars().all(|ch| ch.is_ascii_digit() || ch == '_') && !l.is_empty() => format!("{r}=={l}"),
                _ => c,
            }
        };
        let conds: Vec<String> = out.asserts.iter().map(|a| norm(&a.cond)).collect();
        let find = |prefix: &str| -> Option<u64> {
            conds.iter().find_map(|c| c.strip_prefix(prefix).and_then(|rest| rest.strip_prefix("==")).and_then(|n| n.trim_end_matches(|ch: char| ch.is_alphabetic() || ch == '_').replace('_', "").parse::<u64>().ok()))
        };
        // If no assertion of this struct is written in a form this reader understands, the reader does
        // not judge (the executed width decides from rustc's verdict and the executed offsets). If some
        // are, the recognised form must be complete: a size and every member.
        let size_key = format!("size_of::<{name}>()");
        let any = find(&size_key).is_some() || offs.iter().any(|(f, _)| find(&format!("offset_of!({name},{})", expect::rid(f))).is_some());
        if !any {
            continue;
        }
        match find(&size_key) {
            Some(n) if n == size as u64 => {}
            Some(n) => return Err(format!("the size assertion of `{name}` expects {n}; the WGSL size of the struct is {size}")),
            None => return Err(format!("no size assertion for host-shareable struct `{name}` although its members have offset assertions")),
        }
        for (f, off) in offs {
            match find(&format!("offset_of!({name},{})", expect::rid(&f))) {
                Some(n) if n == off as u64 => {}
                Some(n) => return Err(format!("the offset assertion of `{name}.{f}` expects {n}; the WGSL offset of the member is {off}")),
                None => return Err(format!("no offset assertion for `{name}.{f}` although the struct's other layout assertions are present")),
            }
        }
    }
    Ok(())
}

fn classes(sh: &Shader, o: &Opts, stats: &mut Stats) {
    stats.class(&format!("repr_{:?}", o.repr));
    for (r, c) in expect::predict_module(sh, o) {
        if r.asserts {
            stats.class(match c {
                CompileOutcome::Compiles => "host_struct_layout_matches",
                CompileOutcome::PodPadding => "host_struct_pod_padding",
                CompileOutcome::AssertMismatch => "host_struct_layout_differs",
                CompileOutcome::Unsupported(_) => "unsupported",
            });
            let sd = &sh.structs[r.index];
            stats.class_if(sd.members.iter().any(|m| m.size_attr.is_some() || m.align_attr.is_some()), "explicit_size_or_align");
            stats.class_if(sd.members.iter().any(|m| matches!(m.ty, Ty::M { .. })), "matrix_member");
            stats.class_if(sd.members.iter().any(|m| matches!(m.io, Io::Loc { .. })), "host_struct_with_location_members");
            stats.class_if(sd.members.iter().any(|m| matches!(m.ty, Ty::St(_))), "nested_struct_member");
            stats.class_if(sd.members.iter().any(|m| matches!(&m.ty, Ty::A(e, _) if matches!(**e, Ty::V(3, _)))), "array_of_vec3");
        }
    }
}

impl ExecProp for C05 {
    fn id(&self) -> &'static str {
        "C05"
    }
    fn build(&self, choices: &[u32], _stats: &mut Stats) -> Option<Built> {
        let mut ch = Ch::new(choices);
        let head: Vec<u32> = (0..4).map(|_| ch.raw()).collect();
        let mut h = Ch::new(&head);
        let sh = gen_shader(&mut ch, &profile());
        let repr = *h.pick(&REPRS);
        let mut o = Opts::from_bits(h.below(16) | 2, repr);
        // keep only combinations whose non-bytemuck derives can compile
        let unsupported = |o: &Opts| expect::predict_module(&sh, o).iter().any(|(_, c)| matches!(c, CompileOutcome::Unsupported(_)));
        if unsupported(&o) {
            o.serde = false;
        }
        if unsupported(&o) {
            o.encase_host = false;
        }
        if unsupported(&o) {
            o.bytemuck_vertex = false;
        }
        if unsupported(&o) || expect::predicted_panic(&sh, &o).is_some() {
            return None;
        }
        let wgsl = render(&sh);
        Some(Built { sh, wgsl, include_path: None, opts: o, extra: Value::Null, files: vec![] })
    }
    fn probe_src(&self, b: &Built) -> String {
        structprobe::probe_source(&b.sh, b.opts.repr, false)
    }
    fn observes_item(&self, kind: &str, name: &str) -> bool {
        (kind == "struct" && !matches!(name, "VertexEntry" | "FragmentEntry" | "OverrideConstants")) || (kind == "const" && name == "_")
    }
    fn judge(&self, b: &Built, text: &str, obs: &Value, stats: &mut Stats) -> Verdict {
        structprobe::check_glam_table(obs);
        stats.class("module_compiled_offsets_executed");
        let out = match outread::read(text) {
            Ok(o) => o,
            Err(e) => return Verdict::Violation(e),
        };
        if let Err(m) = judge_assert_numbers(&b.sh, &b.opts, &out) {
            return Verdict::Violation(m);
        }
        // the module compiled: every checked struct must really have the WGSL layout
        for (r, c) in expect::predict_module(&b.sh, &b.opts) {
            let name = &b.sh.structs[r.index].name;
            if r.asserts {
                let (offs, size) = wgsl_numbers(&b.sh, r.index);
                let m = &obs["structs"][name];
                let got_offs: Vec<u64> = m["offsets"].as_array().map(|a| a.iter().map(|x| x.as_u64().unwrap_or(u64::MAX)).collect()).unwrap_or_default();
                let want_offs: Vec<u64> = offs.iter().map(|x| x.1 as u64).collect();
                if got_offs != want_offs || m["size"].as_u64() != Some(size as u64) {
                    return Verdict::Violation(format!(
                        "the module compiles with bytemuck host-shareable checks on, but struct `{name}` has field offsets {got_offs:?} and size {}; the WGSL layout is offsets {want_offs:?} and size {size}",
                        m["size"]
                    ));
                }
            }
            if c != CompileOutcome::Compiles {
                return Verdict::Violation(format!("struct `{name}` was accepted by rustc although the model predicts {c:?} under {}", b.opts.short()));
            }
        }
        Verdict::Ok
    }
    fn judge_compile_error(&self, b: &Built, text: &str, diags: &[Diag]) -> Verdict {
        let out = match outread::read(text) {
            Ok(o) => o,
            Err(e) => return Verdict::Violation(e),
        };
        if let Err(m) = judge_assert_numbers(&b.sh, &b.opts, &out) {
            return Verdict::Violation(m);
        }
        // which structs did rustc reject?
        let mut rejected: BTreeMap<String, String> = BTreeMap::new();
        for d in diags {
            if d.file == "probe" {
                // the probe only names fields/types; with a rejected module this cannot be attributed
                continue;
            }
            let mut owner: Option<String> = None;
            if let Some(s) = out.structs.iter().find(|s| s.lines.0.saturating_sub(3) <= d.line && d.line <= s.lines.1) {
                owner = Some(s.name.clone());
            }
            if let Some(a) = out.asserts.iter().find(|a| a.lines.0 <= d.line && d.line <= a.lines.1) {
                for s in &b.sh.structs {
                    if a.cond.contains(&format!("<{}>", s.name)) || a.cond.contains(&format!("({},", s.name)) {
                        owner = Some(s.name.clone());
                    }
                }
            }
            match owner {
                Some(n) => {
                    rejected.entry(n).or_insert_with(|| format!("{} {}", d.code, d.message));
                }
                None => return Verdict::Skip("uncompilable_elsewhere".into()),
            }
        }
        for (r, c) in expect::predict_module(&b.sh, &b.opts) {
            let name = &b.sh.structs[r.index].name;
            if let Some(why) = rejected.get(name) {
                if c == CompileOutcome::Compiles {
                    let (offs, size) = wgsl_numbers(&b.sh, r.index);
                    let rl = rust_struct_layout(&b.sh.structs[r.index], &b.sh.structs, b.opts.repr);
                    return Verdict::Violation(format!(
                        "rustc rejects struct `{name}` ({why}) although its Rust layout (offsets {:?}, size {}, no padding) equals the WGSL layout (offsets {:?}, size {size}) under {}",
                        rl.offsets,
                        rl.size,
                        offs.iter().map(|x| x.1).collect::<Vec<_>>(),
                        b.opts.short()
                    ));
                }
            }
        }
        // the opposite direction (a predicted rejection that did not happen) is only decided on
        // modules that compile, because one rejected struct may hide another's diagnostics
        Verdict::Ok
    }
    fn nontrivial(&self, b: &Built) -> bool {
        expect::struct_roles(&b.sh, &b.opts).iter().any(|r| {
            r.asserts && {
                let sd = &b.sh.structs[r.index];
                sd.members.len() >= 2 && sd.members.iter().any(|m| wgsl_layout(&m.ty, &b.sh.structs).align > 4 || matches!(m.ty, Ty::A(..) | Ty::M { .. } | Ty::St(_)))
            }
        })
    }
    fn classes(&self, b: &Built, stats: &mut Stats) {
        classes(&b.sh, &b.opts, stats);
    }
}

pub fn eval_replay(sut: &dyn Sut, v: &Value) -> Result<(), String> {
    eval_replay_exec(&C05, sut, v)
}

pub fn run(sut: &dyn Sut, tier: Tier) -> ! {
    preflight::quiet_panics();
    let mut run = Run::new("C05", tier);
    run.rule = "generated host-shareable structs from the full type grammar (scalars, vec2-4, all 9 matrix shapes in f32/f64, fixed arrays of vec3/matrices/structs, nested structs, atomics, explicit padding members, @size/@align) x Rust/Glam/Nalgebra with bytemuck host-shareable derives on, steered so that about half have Rust layout == WGSL layout. (a) the numbers inside every emitted assertion must be the WGSL offsets/size computed by the harness's own implementation of the spec rules; (b) if the module compiles, offset_of!/size_of of every checked struct as evaluated by rustc must equal the WGSL layout and the model must not predict a rejection; (c) if rustc rejects a struct (diagnostic attributed to the struct's derive or its assertions), the model must predict a rejection (layout differs, or Pod padding). Non-trivial = a checked struct with >= 2 members one of which has alignment > 4 or is an array/matrix/nested struct; distinct by (wgsl, options).".to_string();
    run.assumptions = vec![
        "WGSL layout = the harness's own implementation of the spec's AlignOf/SizeOf/OffsetOf rules (unit-tested against the spec's examples); Rust layout = repr(C) rules over leaf sizes re-measured from the compiled glam crate".into(),
        "the direction 'a differing struct must be rejected' is decided only on modules that compile as a whole (one rejected struct can hide another's diagnostics)".into(),
    ];
    let mut stats = Stats::new();
    run.canaries(&mut |v| eval_replay(sut, v));
    let rounds = tier.pick(1, 8);
    let n = tier.pick(800, 1600);
    for r in 0..rounds {
        if run_round(&C05, sut, &mut run, &mut stats, r as u64 + 1, n, (100, 600)) {
            break;
        }
    }
    stats.extra.insert("note".into(), json!("rejected cases are judged from diagnostics; compiled cases from executed offset_of!/size_of"));
    stats.check_health("C05");
    run.finish(&stats)
}
