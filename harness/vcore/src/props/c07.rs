//! C07 — vertex buffer layouts mirror the vertex input structs.

use crate::chooser::Ch;
use crate::engine::*;
use crate::exec::*;
use crate::expect;
use crate::gen::{gen_shader, Profile, TyProfile};
use crate::model::*;
use crate::preflight;
use crate::props::c06::REPRS;
use crate::render::render;
use crate::sut::*;
use crate::wgpucore;
use serde_json::{json, Value};
use std::fmt::Write;
use wgpu_types as wgt;

pub struct C07;

pub fn profile() -> Profile {
    let mut p = Profile::base();
    p.host_structs = (0, 1);
    p.ty = TyProfile::simple();
    p.groups = (0, 1);
    p.bindings = (1, 2);
    p.funcs = (0, 0);
    p.stmts = (0, 1);
    p.entries = [(1, 3), (0, 1), (0, 1)];
    p.io_structs = true;
    p.vertex_struct_params = (0, 3);
    p.push = 0;
    p.private = 0;
    p.workgroup = 0;
    p.unused_structs = (0, 0);
    p.f64_vertex = true;
    p.ty.f64_ = true;
    p.vin_as_storage = 1;
    p.keyword_names = 1;
    p.struct_helpers = 4;
    p
}

pub fn format_name(ty: &Ty) -> Option<String> {
    let (n, sc) = match ty {
        Ty::S(s) => (1, *s),
        Ty::V(n, s) => (*n, *s),
        _ => return None,
    };
    let base = match sc {
        Sc::F32 => "Float32",
        Sc::I32 => "Sint32",
        Sc::U32 => "Uint32",
        Sc::F64 => "Float64",
        Sc::Bool => return None,
    };
    Some(if n == 1 { base.to_string() } else { format!("{base}x{n}") })
}

fn step_for(k: usize, total: usize) -> &'static str {
    if (k * 3 + total) % 2 == 1 {
        "Instance"
    } else {
        "Vertex"
    }
}

pub fn probe_source(sh: &Shader) -> String {
    let mut s = String::new();
    s.push_str("use super::*;\nuse wgpu::verif_shim as vs;\nuse serde_json::json;\npub fn probe() -> serde_json::Value {\n    let mut structs = serde_json::Map::new();\n    let mut entries = serde_json::Map::new();\n");
    for si in expect::vertex_input_structs(sh) {
        let sd = &sh.structs[si];
        let path = format!("CASEMOD::{}", expect::rid(&sd.name));
        writeln!(s, "    {{\n        let mut m = serde_json::Map::new();").unwrap();
        writeln!(s, "        let attrs: &[wgpu::VertexAttribute] = &{path}::VERTEX_ATTRIBUTES;").unwrap();
        s.push_str("        m.insert(\"attributes\".into(), attrs.iter().map(|a| json!({\"format\": format!(\"{:?}\", a.format), \"format_size\": a.format.size(), \"format_json\": serde_json::to_value(a.format).unwrap(), \"offset\": a.offset, \"location\": a.shader_location})).collect::<Vec<_>>().into());\n");
        writeln!(s, "        m.insert(\"size\".into(), json!(std::mem::size_of::<{path}>()));").unwrap();
        let offs: Vec<String> = sd
            .members
            .iter()
            .filter(|m| matches!(m.io, Io::Loc { .. }))
            .map(|m| format!("json!([{:?}, std::mem::offset_of!({path}, {})])", m.name, expect::rid(&m.name)))
            .collect();
        writeln!(s, "        let offs: Vec<serde_json::Value> = vec![{}];\n        m.insert(\"offsets\".into(), offs.into());", offs.join(", ")).unwrap();
        writeln!(s, "        m.insert(\"layout_vertex\".into(), vs::vertex_buffer_layout_json(&{path}::vertex_buffer_layout(wgpu::VertexStepMode::Vertex)));").unwrap();
        writeln!(s, "        m.insert(\"layout_instance\".into(), vs::vertex_buffer_layout_json(&{path}::vertex_buffer_layout(wgpu::VertexStepMode::Instance)));").unwrap();
        writeln!(s, "        structs.insert({:?}.into(), m.into());\n    }}", sd.name).unwrap();
    }
    for e in sh.entries.iter().filter(|e| e.stage == Stage::Vertex) {
        let n = e.params.iter().filter(|p| matches!(p, EParam::Struct { .. })).count();
        let modes: Vec<String> = (0..n).map(|k| format!("wgpu::VertexStepMode::{}", step_for(k, n))).collect();
        writeln!(
            s,
            "    {{ let entry = CASEMOD::{}_entry({}); entries.insert({:?}.into(), entry.buffers.iter().map(|b| vs::vertex_buffer_layout_json(b)).collect::<Vec<_>>().into()); }}",
            e.name,
            modes.join(", "),
            e.name
        )
        .unwrap();
    }
    s.push_str("    json!({\"structs\": structs, \"entries\": entries})\n}\n");
    s
}

fn attrs_of(layout: &Value) -> Vec<(wgt::VertexFormat, u64, u32)> {
    layout["attributes"]
        .as_array()
        .map(|a| {
            a.iter()
                .filter_map(|x| Some((serde_json::from_value::<wgt::VertexFormat>(x["format"].clone()).ok()?, x["offset"].as_u64()?, x["shader_location"].as_u64()? as u32)))
                .collect()
        })
        .unwrap_or_default()
}

pub fn judge_obs(sh: &Shader, wgsl: &str, obs: &Value) -> Result<(), String> {
    for si in expect::vertex_input_structs(sh) {
        let sd = &sh.structs[si];
        let m = &obs["structs"][&sd.name];
        let attrs = m["attributes"].as_array().cloned().unwrap_or_default();
        let located: Vec<&Member> = sd.members.iter().filter(|x| matches!(x.io, Io::Loc { .. })).collect();
        if attrs.len() != located.len() {
            return Err(format!("`{}`::VERTEX_ATTRIBUTES has {} attributes; the struct has {} @location members (builtins contribute none)", sd.name, attrs.len(), located.len()));
        }
        let size = m["size"].as_u64().unwrap_or(u64::MAX);
        for mem in &located {
            let Io::Loc { loc, .. } = &mem.io else { unreachable!() };
            let found: Vec<&Value> = attrs.iter().filter(|a| a["location"].as_u64() == Some(*loc as u64)).collect();
            if found.len() != 1 {
                return Err(format!("`{}`: {} attributes carry @location({loc}) of member `{}` (expected exactly one)", sd.name, found.len(), mem.name));
            }
            let a = found[0];
            let want_fmt = format_name(&mem.ty).unwrap_or_default();
            if a["format"].as_str() != Some(&want_fmt) {
                return Err(format!("`{}`.{} : {} has vertex format {}; expected {want_fmt}", sd.name, mem.name, mem.ty.wgsl(&sh.structs), a["format"]));
            }
            let off = m["offsets"].as_array().and_then(|o| o.iter().find(|x| x[0].as_str() == Some(&mem.name))).and_then(|x| x[1].as_u64());
            if a["offset"].as_u64() != off || off.is_none() {
                return Err(format!("`{}`.{}: attribute offset {} differs from the Rust field offset {:?}", sd.name, mem.name, a["offset"], off));
            }
        }
        for (key, mode) in [("layout_vertex", "Vertex"), ("layout_instance", "Instance")] {
            let l = &m[key];
            if l["array_stride"].as_u64() != Some(size) {
                return Err(format!("`{}`::vertex_buffer_layout stride {} differs from size_of = {size}", sd.name, l["array_stride"]));
            }
            if l["step_mode_dbg"].as_str() != Some(mode) {
                return Err(format!("`{}`::vertex_buffer_layout({mode}) has step mode {}", sd.name, l["step_mode_dbg"]));
            }
            let la = l["attributes"].as_array().cloned().unwrap_or_default();
            let same = la.len() == attrs.len() && la.iter().zip(attrs.iter()).all(|(x, y)| x["format_dbg"] == y["format"] && x["offset"] == y["offset"] && x["shader_location"] == y["location"]);
            if !same {
                return Err(format!("`{}`::vertex_buffer_layout does not carry VERTEX_ATTRIBUTES", sd.name));
            }
        }
    }
    let parsed = preflight::preflight(wgsl).map_err(|e| format!("(harness) {e}"))?;
    for e in sh.entries.iter().filter(|e| e.stage == Stage::Vertex) {
        let bufs = obs["entries"][&e.name].as_array().cloned().unwrap_or_default();
        let params: Vec<usize> = e.params.iter().filter_map(|p| if let EParam::Struct { st, .. } = p { Some(*st) } else { None }).collect();
        if bufs.len() != params.len() {
            return Err(format!("`{}_entry` yields {} buffer layouts for {} struct parameters", e.name, bufs.len(), params.len()));
        }
        for (k, st) in params.iter().enumerate() {
            let mode = step_for(k, params.len());
            let want = &obs["structs"][&sh.structs[*st].name][if mode == "Vertex" { "layout_vertex" } else { "layout_instance" }];
            if bufs[k] != *want {
                return Err(format!(
                    "`{}_entry` buffer {k} is not the layout of parameter {k} (`{}`) with the caller's step mode {mode}: {} vs {}",
                    e.name, sh.structs[*st].name, bufs[k], want
                ));
            }
        }
        // wgpu's vertex buffer rules and vertex input validation
        let rule_in: Vec<(u64, Vec<(wgt::VertexFormat, u64, u32)>)> = bufs.iter().map(|b| (b["array_stride"].as_u64().unwrap_or(0), attrs_of(b))).collect();
        wgpucore::vertex_buffer_rules(&rule_in).map_err(|m| format!("wgpu would reject the vertex buffers of `{}`: {m}", e.name))?;
        let inputs: Vec<(u32, wgt::VertexFormat)> = rule_in.iter().flat_map(|(_, a)| a.iter().map(|(f, _, l)| (*l, *f))).collect();
        // bind group layouts are not the subject here: derive them from the shader
        let res = wgpucore::check_vertex_inputs(&parsed.module, &parsed.info, &e.name, &inputs);
        if let Err(m) = res {
            return Err(format!("wgpu-core's vertex input validation rejects `{}` with the generated attributes: {m}", e.name));
        }
    }
    Ok(())
}

impl ExecProp for C07 {
    fn id(&self) -> &'static str {
        "C07"
    }
    fn build(&self, choices: &[u32], _stats: &mut Stats) -> Option<Built> {
        let mut ch = Ch::new(choices);
        let head: Vec<u32> = (0..4).map(|_| ch.raw()).collect();
        let mut h = Ch::new(&head);
        let sh = gen_shader(&mut ch, &profile());
        let repr = *h.pick(&REPRS);
        let opts = expect::compiling_opts(&sh, h.below(16), repr)?;
        let wgsl = render(&sh);
        Some(Built { sh, wgsl, include_path: None, opts, extra: Value::Null, files: vec![] })
    }
    fn probe_src(&self, b: &Built) -> String {
        probe_source(&b.sh)
    }
    fn observes_item(&self, kind: &str, name: &str) -> bool {
        kind == "impl" || (kind == "fn" && name.ends_with("_entry")) || (kind == "struct" && name == "VertexEntry")
    }
    fn judge(&self, b: &Built, _text: &str, obs: &Value, _stats: &mut Stats) -> Verdict {
        match judge_obs(&b.sh, &b.wgsl, obs) {
            Ok(()) => Verdict::Ok,
            Err(m) => Verdict::Violation(format!("{m} ({})", b.opts.short())),
        }
    }
    fn nontrivial(&self, b: &Built) -> bool {
        expect::vertex_input_structs(&b.sh).iter().any(|si| {
            let sd = &b.sh.structs[*si];
            let locs: Vec<u32> = sd.members.iter().filter_map(|m| if let Io::Loc { loc, .. } = &m.io { Some(*loc) } else { None }).collect();
            let builtin_between = sd.members.windows(3).any(|w| matches!(w[1].io, Io::Builtin(_)) && matches!(w[0].io, Io::Loc { .. }) && matches!(w[2].io, Io::Loc { .. }));
            let nonseq = locs.iter().enumerate().any(|(i, l)| *l as usize != i);
            let aligned16 = b.opts.repr == crate::layout::Repr::Glam && sd.members.iter().any(|m| matches!(m.ty, Ty::V(4, Sc::F32)));
            locs.len() >= 2 && (builtin_between || nonseq || aligned16)
        })
    }
    fn classes(&self, b: &Built, stats: &mut Stats) {
        stats.class(&format!("repr_{:?}", b.opts.repr));
        stats.class_if(b.opts.bytemuck_vertex, "bytemuck_vertex");
        for si in expect::vertex_input_structs(&b.sh) {
            let sd = &b.sh.structs[si];
            stats.class("vertex_input_struct");
            stats.class_if(sd.members.iter().any(|m| matches!(m.io, Io::Builtin(_))), "struct_with_builtin");
            stats.class_if(sd.members.iter().any(|m| m.ty.has_scalar(Sc::F64, &b.sh.structs)), "f64_attribute");
            let users = b.sh.entries.iter().filter(|e| e.stage == Stage::Vertex && e.params.iter().any(|p| matches!(p, EParam::Struct { st, .. } if *st == si))).count();
            stats.class_if(users >= 2, "struct_shared_by_entries");
        }
        let vnames: Vec<String> = expect::vertex_input_structs(&b.sh).iter().map(|si| b.sh.structs[*si].name.chars().filter(|c| *c != '0').collect()).collect();
        stats.class_if((0..vnames.len()).any(|i| vnames[..i].contains(&vnames[i])), "vertex_struct_names_differ_only_by_zeros");
        for e in b.sh.entries.iter().filter(|e| e.stage == Stage::Vertex) {
            stats.class(&format!("entry_struct_params={}", e.params.iter().filter(|p| matches!(p, EParam::Struct { .. })).count()));
        }
    }
}

pub fn eval_replay(sut: &dyn Sut, v: &Value) -> Result<(), String> {
    eval_replay_exec(&C07, sut, v)
}

pub fn run(sut: &dyn Sut, tier: Tier) -> ! {
    preflight::quiet_panics();
    let mut run = Run::new("C07", tier);
    run.rule = "generated shaders with 1-3 vertex entry points taking 0-3 struct parameters (structs shared between entries, also bound as storage), members f32/i32/u32/f64 scalars and vec2-4 at arbitrary distinct locations with builtins interleaved, x Rust/Glam/Nalgebra x derive switches (which change field alignment). The module is compiled and executed: VERTEX_ATTRIBUTES, vertex_buffer_layout(step) for both step modes and <entry>_entry(steps) with a distinct step pattern per parameter. Judged: one attribute per @location member matched by location, format of equal kind/width/count, offset == offset_of! evaluated independently by the probe, stride == size_of, buffers in parameter order with the caller's step modes, wgpu's vertex-buffer rules (transcribed) and wgpu-core's check_stage of the vertex entry with these attributes as provided inputs. Non-trivial = a struct with >= 2 located members and a builtin in between, non-sequential locations, or a 16-aligned glam member; distinct by (wgsl, options).".to_string();
    run.assumptions = vec![
        "vertex buffer rules of Device::create_render_pipeline are transcribed from wgpu-core 24.0.5 (trusted transcription)".into(),
        "located non-struct parameters of vertex entries are not generated (the source documents them as unsupported)".into(),
    ];
    let mut stats = Stats::new();
    run.canaries(&mut |v| eval_replay(sut, v));
    let rounds = tier.pick(1, 8);
    let n = tier.pick(800, 1600);
    for r in 0..rounds {
        if run_round(&C07, sut, &mut run, &mut stats, r as u64 + 1, n, (120, 700)) {
            break;
        }
    }
    stats.check_health("C07");
    run.finish(&stats)
}
