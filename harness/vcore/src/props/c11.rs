//! C11 — group numbering contract: dense groups, unique slots, or a typed error.

use crate::chooser::{hash_str, Ch};
use crate::engine::*;
use crate::outread;
use crate::preflight;
use crate::sut::*;
use serde_json::json;

#[derive(Clone, Debug)]
pub struct Case {
    pub pairs: Vec<(u32, u32)>,
    pub kinds: Vec<u8>,
    pub with_entry: bool,
    pub validate: Validate,
    /// module-scope declarations that are not resources, as (position in the resource sequence, kind):
    /// private / workgroup variables, constants, overrides, structs declared between the bindings
    pub others: Vec<(u32, u8)>,
}

fn other_decl(k: usize, kind: u8) -> String {
    match kind % 5 {
        0 => format!("var<private> prv_{k}: f32;"),
        1 => format!("var<workgroup> wgv_{k}: array<atomic<u32>, 4>;"),
        2 => format!("const K_{k}: u32 = 3u;"),
        3 => format!("override ov_{k}: f32 = 1.0;"),
        _ => format!("struct S_{k} {{ a: f32, }}"),
    }
}

const KINDS: usize = 6;

fn decl(kind: u8, name: &str, g: u32, b: u32) -> (String, String) {
    // returns (declaration, a statement that uses it)
    let at = format!("@group({}) @binding({})", crate::render::index_lit(g), crate::render::index_lit(b));
    match kind % KINDS as u8 {
        0 => (format!("{at} var<uniform> {name}: vec4<f32>;"), format!("acc = acc + {name}.x;")),
        1 => (format!("{at} var<storage, read_write> {name}: array<u32>;"), format!("{name}[0] = 1u;")),
        2 => (format!("{at} var<storage, read> {name}: array<vec2<f32>, 3>;"), format!("acc = acc + {name}[1].y;")),
        3 => (format!("{at} var {name}: texture_2d<f32>;"), format!("acc = acc + f32(textureDimensions({name}).x);")),
        4 => (format!("{at} var {name}: sampler;"), String::new()),
        _ => (
            format!("{at} var {name}: texture_storage_2d<rgba8unorm, write>;"),
            format!("textureStore({name}, vec2<i32>(0, 0), vec4<f32>(acc));"),
        ),
    }
}

pub fn render(c: &Case) -> String {
    let mut s = String::new();
    let mut uses = Vec::new();
    for (i, (g, b)) in c.pairs.iter().enumerate() {
        for (k, (pos, kind)) in c.others.iter().enumerate() {
            if *pos as usize == i {
                s.push_str(&other_decl(k, *kind));
                s.push('\n');
            }
        }
        let (d, u) = decl(c.kinds[i], &format!("res_{i}"), *g, *b);
        s.push_str(&d);
        s.push('\n');
        uses.push(u);
    }
    for (k, (pos, kind)) in c.others.iter().enumerate() {
        if *pos as usize >= c.pairs.len() {
            s.push_str(&other_decl(k, *kind));
            s.push('\n');
        }
    }
    if c.with_entry {
        s.push_str("@compute @workgroup_size(1)\nfn main() {\n    var acc: f32 = 0.0;\n");
        for u in uses {
            if !u.is_empty() {
                s.push_str("    ");
                s.push_str(&u);
                s.push('\n');
            }
        }
        s.push_str("}\n");
    }
    s
}

/// The reference predicate on the declared sequence.
#[derive(Debug, PartialEq, Eq)]
pub enum Expect {
    Duplicate(Vec<u32>),
    NonConsecutive,
    Ok,
}

pub fn expect(pairs: &[(u32, u32)]) -> Expect {
    let mut repeated = Vec::new();
    for (i, p) in pairs.iter().enumerate() {
        if pairs[..i].contains(p) && !repeated.contains(&p.1) {
            repeated.push(p.1);
        }
    }
    if !repeated.is_empty() {
        return Expect::Duplicate(repeated);
    }
    let mut groups: Vec<u32> = pairs.iter().map(|p| p.0).collect();
    groups.sort();
    groups.dedup();
    if groups.iter().enumerate().all(|(i, g)| *g as usize == i) {
        Expect::Ok
    } else {
        Expect::NonConsecutive
    }
}

fn nontrivial(pairs: &[(u32, u32)]) -> bool {
    let dup_nonfirst = pairs.iter().enumerate().any(|(i, p)| pairs[..i].contains(p) && p.0 != pairs[0].0);
    let same_binding_two_groups = pairs.iter().enumerate().any(|(i, p)| pairs[..i].iter().any(|q| q.1 == p.1 && q.0 != p.0));
    let mut gs: Vec<u32> = pairs.iter().map(|p| p.0).collect();
    let declared_sorted = gs.windows(2).all(|w| w[0] <= w[1]);
    gs.sort();
    gs.dedup();
    let gap = gs.iter().enumerate().any(|(i, g)| *g as usize != i);
    dup_nonfirst || same_binding_two_groups || gap || !declared_sorted
}

pub fn judge(sut: &dyn Sut, c: &Case, stats: &mut Stats) -> Result<(), String> {
    let wgsl = render(c);
    // the generated text must at least parse (generator soundness)
    let module = match naga::front::wgsl::parse_str(&wgsl) {
        Ok(m) => m,
        Err(e) => {
            stats.generator_invalid += 1;
            if stats.generator_invalid <= 3 {
                eprintln!("generator-invalid: {}", e.emit_to_string(&wgsl));
            }
            return Ok(());
        }
    };
    let opts = Opts { validate: c.validate, ..Opts::default() };
    let out = sut.generate(&wgsl, None, &opts);
    stats.evaluations += 1;
    let exp = expect(&c.pairs);
    let nt = nontrivial(&c.pairs);
    if nt {
        stats.nontrivial_case(hash_str(&format!("{wgsl}|{:?}", c.validate)));
    }
    stats.class(match &exp {
        Expect::Duplicate(_) => "expect_duplicate",
        Expect::NonConsecutive => "expect_nonconsecutive",
        Expect::Ok => "expect_ok",
    });
    stats.class_if(c.validate != Validate::Off, "validation_on");
    stats.class_if(c.with_entry, "with_entry");
    stats.sample(|| json!({"pairs": c.pairs, "validate": format!("{:?}", c.validate), "wgsl": wgsl, "expected": format!("{exp:?}"), "observed": out.brief()}));

    // with validation on, the validator's own error may pre-empt -- exactly when the harness's own
    // naga validator call rejects this module under the same capabilities
    let ref_rejects = match c.validate {
        Validate::Off => false,
        v => {
            let caps = caps_of(v);
            naga::valid::Validator::new(naga::valid::ValidationFlags::all(), caps).validate(&module).is_err()
        }
    };
    let ctx = || format!("pairs={:?} validate={:?} with_entry={}\n{}", c.pairs, c.validate, c.with_entry, wgsl);
    match (&out, &exp) {
        (Outcome::Panic(m), _) => Err(format!("generation panicked ({m}); the contract is a typed error or Ok\n{}", ctx())),
        (Outcome::Err(e), _) if e.kind == ErrKind::Validation => {
            if ref_rejects {
                stats.class("validator_preempted");
                Ok(())
            } else {
                Err(format!("ValidationError although the reference validator accepts the module: {}\n{}", e.display, ctx()))
            }
        }
        (Outcome::Err(e), Expect::Duplicate(bs)) => match &e.kind {
            ErrKind::DuplicateBinding(b) if bs.contains(b) => Ok(()),
            other => Err(format!("expected DuplicateBinding with binding in {bs:?}, got {other:?} ({})\n{}", e.display, ctx())),
        },
        (Outcome::Err(e), Expect::NonConsecutive) => match &e.kind {
            ErrKind::NonConsecutiveBindGroups => Ok(()),
            other => Err(format!("expected NonConsecutiveBindGroups, got {other:?} ({})\n{}", e.display, ctx())),
        },
        (Outcome::Err(e), Expect::Ok) => Err(format!("expected Ok for a dense, duplicate-free numbering, got {:?} ({})\n{}", e.kind, e.display, ctx())),
        (Outcome::Ok(_), Expect::Duplicate(_)) | (Outcome::Ok(_), Expect::NonConsecutive) => {
            if ref_rejects {
                // cannot happen (validation precedes), but would still be a violation: Ok is never allowed here
            }
            Err(format!("generation succeeded although the numbering requires {exp:?}\n{}", ctx()))
        }
        (Outcome::Ok(text), Expect::Ok) => {
            if ref_rejects {
                return Err(format!("Ok although validation is on and the reference validator rejects the module\n{}", ctx()));
            }
            check_ok_output(text, c).map_err(|m| format!("{m}\n{}\n--- output ---\n{}", ctx(), text))
        }
    }
}

pub fn caps_of(v: Validate) -> naga::valid::Capabilities {
    match v {
        Validate::Off | Validate::All => naga::valid::Capabilities::all(),
        Validate::Default => naga::valid::Capabilities::default(),
        Validate::Bits(b) => naga::valid::Capabilities::from_bits_truncate(b),
    }
}

/// On success every declared binding appears exactly once, in its own group, with its own index
/// (wide reading; anything the reader does not understand is left to the executed width).
fn check_ok_output(text: &str, c: &Case) -> Result<(), String> {
    let out = outread::read(text)?;
    let mut want: std::collections::BTreeMap<u32, Vec<(u64, String)>> = Default::default();
    for (i, (g, b)) in c.pairs.iter().enumerate() {
        want.entry(*g).or_default().push((*b as u64, format!("res_{i}")));
    }
    if c.pairs.is_empty() {
        if out.has_bind_groups_mod && !out.groups.is_empty() {
            return Err("bind groups emitted for a shader without resources".into());
        }
        return Ok(());
    }
    let got_groups: Vec<u32> = out.groups.keys().copied().collect();
    let want_groups: Vec<u32> = want.keys().copied().collect();
    if got_groups != want_groups {
        return Err(format!("emitted groups {got_groups:?} differ from declared groups {want_groups:?}"));
    }
    for (g, ws) in &want {
        let og = &out.groups[g];
        let mut wb: Vec<u64> = ws.iter().map(|x| x.0).collect();
        wb.sort();
        if let Some(le) = &og.layout_entries {
            let mut gb: Vec<u64> = le.iter().filter_map(|e| e.binding).collect();
            if gb.len() == le.len() {
                gb.sort();
                if gb != wb {
                    return Err(format!("group {g}: layout binding indices {gb:?} differ from declared {wb:?}"));
                }
            }
        }
        if let Some(be) = &og.bind_entries {
            let mut gb: Vec<(u64, String)> = be.iter().map(|e| (e.binding.unwrap(), e.field.clone())).collect();
            gb.sort();
            let mut w2 = ws.clone();
            w2.sort();
            if gb != w2 {
                return Err(format!("group {g}: bind group entries {gb:?} differ from declared (index, variable) pairs {w2:?}"));
            }
        }
        let mut fields: Vec<String> = og.fields.iter().map(|f| f.name.clone()).collect();
        fields.sort();
        let mut wf: Vec<String> = ws.iter().map(|x| x.1.clone()).collect();
        wf.sort();
        if fields != wf {
            return Err(format!("group {g}: resource struct fields {fields:?} differ from declared variables {wf:?}"));
        }
        if let Some(si) = og.set_index {
            if si != *g as u64 {
                return Err(format!("group {g} is set at index {si}"));
            }
        }
    }
    if let Some(pl) = &out.pipeline_layout_groups {
        if *pl != want_groups {
            return Err(format!("pipeline layout lists groups {pl:?}, expected {want_groups:?}"));
        }
    }
    Ok(())
}

pub fn case_from_choices(ch: &mut Ch) -> Case {
    let n = ch.usize_range(0, 12);
    let mut pairs = Vec::new();
    let mut kinds = Vec::new();
    let idx = |ch: &mut Ch, small: u32| -> u32 {
        match ch.below(10) {
            0..=6 => ch.below(small),
            7 => ch.range(small, 40),
            8 => *ch.pick(&[1u32 << 31, u32::MAX, u32::MAX - 1, 65535, 65536, 255, 256]),
            _ => ch.raw(),
        }
    };
    for _ in 0..n {
        // repeat an earlier pair sometimes so duplicates also occur with huge indices
        if !pairs.is_empty() && ch.chance(1, 8) {
            let p = *ch.pick(&pairs);
            pairs.push(p);
        } else {
            let g = idx(ch, 4);
            let b = idx(ch, 4);
            pairs.push((g, b));
        }
        kinds.push(ch.below(KINDS as u32) as u8);
    }
    let validate = match ch.below(5) {
        0 | 1 => Validate::Off,
        2 => Validate::All,
        3 => Validate::Default,
        _ => Validate::Bits(ch.raw()),
    };
    let with_entry = ch.flip();
    let mut others = Vec::new();
    if ch.chance(3, 8) {
        for _ in 0..ch.usize_range(1, 3) {
            others.push((ch.range(0, n as u32), ch.below(5) as u8));
        }
    }
    Case { pairs, kinds, with_entry, validate, others }
}

fn case_json(c: &Case, choices: Option<&[u32]>) -> serde_json::Value {
    json!({
        "kind": "c11",
        "pairs": c.pairs, "kinds": c.kinds, "with_entry": c.with_entry, "others": c.others,
        "validate": match c.validate { Validate::Off => json!("off"), Validate::All => json!("all"), Validate::Default => json!("default"), Validate::Bits(b) => json!(b) },
        "choices": choices,
        "wgsl": render(c),
    })
}

fn case_from_json(v: &serde_json::Value) -> Case {
    let pairs = v["pairs"].as_array().unwrap().iter().map(|p| (p[0].as_u64().unwrap() as u32, p[1].as_u64().unwrap() as u32)).collect();
    let kinds = v["kinds"].as_array().unwrap().iter().map(|k| k.as_u64().unwrap() as u8).collect();
    let validate = match &v["validate"] {
        serde_json::Value::String(s) if s == "all" => Validate::All,
        serde_json::Value::String(s) if s == "default" => Validate::Default,
        serde_json::Value::Number(n) => Validate::Bits(n.as_u64().unwrap() as u32),
        _ => Validate::Off,
    };
    let others = v["others"].as_array().map(|a| a.iter().map(|p| (p[0].as_u64().unwrap_or(0) as u32, p[1].as_u64().unwrap_or(0) as u8)).collect()).unwrap_or_default();
    Case { pairs, kinds, with_entry: v["with_entry"].as_bool().unwrap_or(false), validate, others }
}

pub fn eval_replay(sut: &dyn Sut, v: &serde_json::Value) -> Result<(), String> {
    let c = case_from_json(v);
    judge(sut, &c, &mut Stats::new())
}

pub fn run(sut: &dyn Sut, tier: Tier) -> ! {
    preflight::quiet_panics();
    let mut run = Run::new("C11", tier);
    run.rule = "bounded-exhaustive: every declaration sequence of up to L (group,binding) pairs over groups 0..3 x bindings 0..2 (L=3 quick, 4 thorough), each with validation off/no entry point and validation on/an entry point using every resource; plus random sequences up to length 12 with indices up to u32::MAX, random resource kinds and capability sets. Non-trivial = the sequence has a duplicate in a non-first group, the same binding index in two groups, a gap after sorting, or groups declared out of order; distinct by (wgsl, validation).".to_string();
    run.assumptions = vec![
        "naga 24.0.0's parser/validator (called directly by the harness) is the reference for 'the validator rejects'".into(),
        "on Ok the output is read with syn (layout entries, bind entries, struct fields, set index, pipeline layout order)".into(),
    ];
    run.exhaustive = true;
    run.canaries(&mut |v| eval_replay(sut, v));
    let mut stats = Stats::new();
    let max_len = tier.pick(3, 4);
    // enumerated part
    let universe: Vec<(u32, u32)> = (0..4).flat_map(|g| (0..3).map(move |b| (g, b))).collect();
    let mut seq: Vec<usize> = Vec::new();
    let mut enumerated = 0u64;
    let mut first_fail: Option<(Case, String)> = None;
    'outer: loop {
        let pairs: Vec<(u32, u32)> = seq.iter().map(|i| universe[*i]).collect();
        for (with_entry, validate) in [(false, Validate::Off), (true, Validate::All)] {
            let kinds: Vec<u8> = (0..pairs.len()).map(|i| ((i * 7 + seq.iter().sum::<usize>()) % KINDS) as u8).collect();
            let c = Case { pairs: pairs.clone(), kinds, with_entry, validate, others: vec![] };
            enumerated += 1;
            if let Err(m) = judge(sut, &c, &mut stats) {
                first_fail = Some((c, m));
                break 'outer;
            }
        }
        // next sequence (odometer over lengths 0..=max_len)
        let mut i = seq.len();
        loop {
            if i == 0 {
                if seq.len() == max_len {
                    break 'outer;
                }
                seq = vec![0; seq.len() + 1];
                break;
            }
            i -= 1;
            if seq[i] + 1 < universe.len() {
                seq[i] += 1;
                for j in i + 1..seq.len() {
                    seq[j] = 0;
                }
                break;
            }
        }
    }
    stats.extra.insert("enumerated_cases".into(), json!(enumerated));
    if let Some((c, m)) = first_fail {
        run.violation(case_json(&c, None), &m);
        run.finish(&stats);
    }
    // random part
    let cases = tier.pick(10000, 150000);
    let seed = run.seed_for(1);
    let mut j = |choices: &[u32], st: &mut Stats| -> Result<(), String> {
        let mut ch = Ch::new(choices);
        let c = case_from_choices(&mut ch);
        judge(sut, &c, st)
    };
    let mut found = run_inprocess(seed, cases, (8, 160), &mut stats, &mut j);
    if found.is_none() && tier == Tier::Thorough {
        // coverage-guided search over the same choice sequences (libFuzzer, oracle in the target)
        found = fuzz_choices(&run, &mut stats, (8, 160), 300, 12, 50_000, &mut j);
    }
    if let Some(f) = found {
        let mut ch = Ch::new(&f.choices);
        let c = case_from_choices(&mut ch);
        run.violation(case_json(&c, Some(&f.choices)), &f.message);
    }
    stats.check_health("C11");
    run.finish(&stats)
}

/// judge of the random part as a function of the choice sequence (used by the coverage-guided target)
pub fn judge_choices(sut: &dyn Sut, choices: &[u32], stats: &mut Stats) -> Result<(), String> {
    let mut ch = Ch::new(choices);
    let c = case_from_choices(&mut ch);
    judge(sut, &c, stats)
}
