//! C03 — binding visibility equals exactly the stages that statically use it.

use crate::chooser::{hash_str, Ch};
use crate::engine::*;
use crate::exec::*;
use crate::expect;
use crate::gen::{gen_shader, Profile, TyProfile};
use crate::model::*;
use crate::outread;
use crate::preflight;
use crate::props::layouts;
use crate::render::render;
use crate::sut::*;
use serde_json::{json, Value};

pub struct C03;

pub fn profile() -> Profile {
    let mut p = Profile::base();
    p.host_structs = (0, 2);
    p.ty = TyProfile::full();
    p.ty.f64_ = false;
    p.groups = (1, 3);
    p.bindings = (1, 4);
    p.funcs = (0, 8);
    p.stmts = (0, 5);
    p.depth = 3;
    p.entries = [(0, 3), (0, 3), (0, 3)];
    p.io_structs = false;
    p.push = 3;
    p.private = 1;
    p.workgroup = 1;
    p.unused_structs = (0, 0);
    p.nonascii = 1;
    p.keyword_names = 2;
    p.many_funcs = 4;
    p
}

fn stage_names(bits: u32) -> String {
    let mut v = Vec::new();
    if bits & 1 != 0 {
        v.push("VERTEX");
    }
    if bits & 2 != 0 {
        v.push("FRAGMENT");
    }
    if bits & 4 != 0 {
        v.push("COMPUTE");
    }
    if v.is_empty() {
        "NONE".into()
    } else {
        v.join("|")
    }
}

/// Harness self-check: the model's static-access sets must agree with naga's own analysis of the
/// rendered text. A disagreement is a harness defect (exit 2), never a violation.
pub fn crosscheck(sh: &Shader, wgsl: &str) -> Result<(), String> {
    let parsed = preflight::preflight(wgsl)?;
    let reach = expect::entry_reach(sh);
    for (ei, e) in sh.entries.iter().enumerate() {
        let Some(nidx) = parsed.module.entry_points.iter().position(|x| x.name == e.name) else {
            return Err(format!("entry {} not found by naga", e.name));
        };
        let finfo = parsed.info.get_entry_point(nidx);
        for (h, gv) in parsed.module.global_variables.iter() {
            let Some(name) = &gv.name else { continue };
            let Some(gi) = sh.globals.iter().position(|g| &g.name == name) else { continue };
            let naga_used = !finfo[h].is_empty();
            let model_used = reach[ei].contains(&gi);
            if naga_used != model_used {
                return Err(format!("entry `{}` / variable `{name}`: model says used={model_used}, naga says used={naga_used}", e.name));
            }
        }
    }
    Ok(())
}

pub fn judge_visibility(sh: &Shader, per_group: &dyn Fn(u32, u32) -> Option<Option<u32>>, push_stages: Option<Option<u32>>) -> Result<(), String> {
    let exp = expect::expected_visibility(sh);
    for (gi, g) in sh.globals.iter().enumerate() {
        if let Some((gr, b)) = g.binding {
            match per_group(gr, b) {
                None => return Err(format!("no layout entry for @group({gr}) @binding({b}) (variable `{}`)", g.name)),
                Some(None) => {} // not understood by the reader: deferred to the executed width
                Some(Some(got)) => {
                    if got != exp[gi] {
                        let missing = exp[gi] & !got;
                        let extra = got & !exp[gi];
                        let what = if exp[gi] == 0 {
                            format!("no entry point reaches `{}` but its visibility is {}", g.name, stage_names(got))
                        } else if missing != 0 {
                            format!("stage {} statically uses `{}` but is missing from its visibility {}", stage_names(missing), g.name, stage_names(got))
                        } else {
                            format!("stage {} never uses `{}` but was added to its visibility {}", stage_names(extra), g.name, stage_names(got))
                        };
                        return Err(format!("@group({gr}) @binding({b}): {what} (expected exactly {})", stage_names(exp[gi])));
                    }
                }
            }
        } else if matches!(g.kind, GKind::Buf { space: Space::Push, .. }) && exp[gi] != 0 {
            match push_stages {
                None => return Err(format!("the push constant `{}` is used but no stage set was exported", g.name)),
                Some(None) => {}
                Some(Some(got)) => {
                    if got != exp[gi] {
                        return Err(format!("push constant `{}` is used by {} but its stage set is {}", g.name, stage_names(exp[gi]), stage_names(got)));
                    }
                }
            }
        }
    }
    Ok(())
}

fn build_case(choices: &[u32]) -> Option<(Shader, String, Opts)> {
    let mut ch = Ch::new(choices);
    let sh = gen_shader(&mut ch, &profile());
    let wgsl = render(&sh);
    let opts = expect::plain_opts(&sh)?;
    Some((sh, wgsl, opts))
}

fn nontrivial(sh: &Shader) -> bool {
    let (depth, nested) = expect::reach_depth(sh);
    let exp = expect::expected_visibility(sh);
    let all = sh.stages_present();
    let differs = sh.globals.iter().enumerate().any(|(i, g)| (g.binding.is_some() || matches!(g.kind, GKind::Buf { space: Space::Push, .. })) && exp[i] != all);
    (depth >= 2 || nested) && differs
}

fn classes(sh: &Shader, stats: &mut Stats) {
    let (depth, nested) = expect::reach_depth(sh);
    stats.class_if(depth >= 2, "call_chain>=2");
    stats.class_if(depth >= 4, "call_chain>=4");
    stats.class_if(nested, "access_in_nested_control_flow");
    let exp = expect::expected_visibility(sh);
    stats.class_if(sh.globals.iter().enumerate().any(|(i, g)| g.binding.is_some() && exp[i] == 0), "unreached_binding");
    stats.class_if(sh.entries.len() >= 4, "entries>=4");
    stats.class_if(sh.funcs.len() > 64, "helpers>64");
    let mut has_cont = false;
    let mut forms = std::collections::BTreeSet::new();
    let mut scan = |b: &[Stmt]| {
        walk_stmts(
            b,
            &mut |s, _| match s {
                Stmt::Loop { cont, .. } if !cont.is_empty() => has_cont = true,
                Stmt::Call { form, .. } => {
                    forms.insert(format!("{form:?}"));
                }
                _ => {}
            },
            0,
        )
    };
    for f in &sh.funcs {
        scan(&f.body);
    }
    for e in &sh.entries {
        scan(&e.body);
    }
    stats.class_if(has_cont, "statement_in_continuing");
    for f in forms {
        stats.class(&format!("call_form_{f}"));
    }
    for g in &sh.globals {
        let _ = g;
    }
}

/// wide width: in-process, output read with syn
pub fn judge_wide(sut: &dyn Sut, choices: &[u32], stats: &mut Stats) -> Result<(), String> {
    let Some((sh, wgsl, opts)) = build_case(choices) else {
        stats.excluded_known += 1;
        return Ok(());
    };
    if let Err(e) = crosscheck(&sh, &wgsl) {
        if e.starts_with("parse:") || e.starts_with("validate:") {
            stats.generator_invalid += 1;
            return Ok(());
        }
        eprintln!("HARNESS-DEFECT C03: the static-access model disagrees with naga: {e}\n{wgsl}");
        std::process::exit(2);
    }
    let text = match sut.generate(&wgsl, None, &opts) {
        Outcome::Ok(t) => t,
        Outcome::Panic(m) => {
            stats.sut_panic += 1;
            stats.class(&format!("sut_panic:{}", m.chars().take(40).collect::<String>()));
            return Ok(());
        }
        Outcome::Err(e) => {
            stats.skip(&format!("sut_err_{:?}", e.kind));
            return Ok(());
        }
    };
    stats.evaluations += 1;
    classes(&sh, stats);
    if nontrivial(&sh) {
        stats.nontrivial_case(hash_str(&wgsl));
    }
    let out = outread::read(&text).map_err(|e| format!("{e}\n{wgsl}"))?;
    let push_const = out.const_named("PUSH_CONSTANT_STAGES").map(|c| outread::stage_bits(&c.expr, &|_| None));
    let mut deferred = false;
    let r = judge_visibility(
        &sh,
        &|gr, b| {
            let g = out.groups.get(&gr)?;
            let le = g.layout_entries.as_ref();
            match le {
                None => Some(None),
                Some(entries) => {
                    let e = entries.iter().find(|e| e.binding == Some(b as u64));
                    match e {
                        Some(e) => Some(e.visibility),
                        None => {
                            if entries.iter().any(|e| e.binding.is_none()) {
                                Some(None)
                            } else {
                                None
                            }
                        }
                    }
                }
            }
        },
        push_const,
    );
    if out.groups.values().any(|g| g.layout_entries.as_ref().map(|l| l.iter().any(|e| e.visibility.is_none())).unwrap_or(true)) {
        deferred = true;
    }
    stats.class_if(deferred, "reader_deferred_to_exec");
    stats.sample(|| json!({"wgsl": wgsl, "expected_visibility": sh.globals.iter().zip(expect::expected_visibility(&sh)).filter(|(g, _)| g.binding.is_some()).map(|(g, v)| json!([g.name, stage_names(v)])).collect::<Vec<_>>()}));
    r.map_err(|m| format!("{m}\n--- source ---\n{wgsl}"))
}

impl ExecProp for C03 {
    fn id(&self) -> &'static str {
        "C03"
    }
    fn build(&self, choices: &[u32], _stats: &mut Stats) -> Option<Built> {
        let (sh, wgsl, opts) = build_case(choices)?;
        Some(Built { sh, wgsl, include_path: None, opts, extra: Value::Null, files: vec![] })
    }
    fn probe_src(&self, b: &Built) -> String {
        layouts::probe_source(&b.sh)
    }
    fn observes_item(&self, kind: &str, name: &str) -> bool {
        (kind == "mod" && name == "bind_groups") || (kind == "fn" && name == "create_pipeline_layout") || (kind == "const" && name == "PUSH_CONSTANT_STAGES")
    }
    fn judge(&self, b: &Built, _text: &str, obs: &Value, _stats: &mut Stats) -> Verdict {
        if let Err(e) = crosscheck(&b.sh, &b.wgsl) {
            eprintln!("HARNESS-DEFECT C03: the static-access model disagrees with naga: {e}\n{}", b.wgsl);
            std::process::exit(2);
        }
        let lo = match layouts::parse(obs) {
            Ok(l) => l,
            Err(e) => return Verdict::Violation(e),
        };
        // recorded PushConstantRange.stages must equal the exported constant when used
        let push = lo.push_constant_stages.map(Some);
        let r = judge_visibility(&b.sh, &|gr, bi| lo.groups.get(&gr).and_then(|es| es.iter().find(|e| e.binding == bi)).map(|e| Some(e.visibility.bits())), push);
        if let Err(m) = r {
            return Verdict::Violation(m);
        }
        if let Some(gi) = layouts::has_push(&b.sh) {
            let exp = expect::expected_visibility(&b.sh)[gi];
            if exp != 0 {
                if lo.push_ranges.len() != 1 || lo.push_ranges[0].0 != exp {
                    return Verdict::Violation(format!("the recorded push constant ranges {:?} do not carry the stage set {} of the using stages", lo.push_ranges, stage_names(exp)));
                }
            }
        }
        Verdict::Ok
    }
    fn nontrivial(&self, b: &Built) -> bool {
        nontrivial(&b.sh)
    }
    fn classes(&self, b: &Built, stats: &mut Stats) {
        classes(&b.sh, stats);
        stats.class("executed_width");
    }
}

pub fn eval_replay(sut: &dyn Sut, v: &Value) -> Result<(), String> {
    eval_replay_exec(&C03, sut, v)
}

pub fn run(sut: &dyn Sut, tier: Tier) -> ! {
    preflight::quiet_panics();
    let mut run = Run::new("C03", tier);
    run.rule = "generated call graphs: 1-12 resources (+ optional push constant), helper DAG of up to 8 functions with shared helpers, access and call sites at every position of the statement grammar (if/else, loop body, continuing, for, while, switch cases and default, nested blocks; calls as statement, let, operand, argument, nested call, condition, return value, switch selector, for condition, break-if), 0-3 entry points per stage; expected(g) = union of stages of entry points from which an access of g is reachable, computed on the generator AST and cross-checked against naga's ModuleInfo (disagreement = harness error). Wide width: output read with syn + bitflag interpreter; executed width: visibility of the layout entries recorded by the fake device, PUSH_CONSTANT_STAGES and the recorded PushConstantRange. Non-trivial = some access is reached through a call chain >= 2 or sits in nested control flow AND some variable's expected set differs from the set of all entry stages; distinct by wgsl.".to_string();
    run.assumptions = vec![
        "'statically uses' = naga's per-entry-point GlobalUse is non-empty (what wgpu validates); pointer-taking without access and phony assignment of handles are not generated".into(),
    ];
    let mut stats = Stats::new();
    run.canaries(&mut |v| eval_replay(sut, v));
    let cases = tier.pick(4000, 120000);
    let mut j = |choices: &[u32], st: &mut Stats| judge_wide(sut, choices, st);
    let mut found = run_inprocess(run.seed_for(1), cases, (120, 700), &mut stats, &mut j);
    if found.is_none() && tier == Tier::Thorough {
        // coverage-guided search over the same choice sequences (libFuzzer, oracle in the target)
        found = fuzz_choices(&run, &mut stats, (120, 700), 300, 12, 8_000, &mut j);
    }
    if let Some(f) = found {
        let mut st = Stats::new();
        let body = match C03.build(&f.choices, &mut st) {
            Some(b) => case_json(&b, &f.choices, None),
            None => json!({"choices": f.choices}),
        };
        run.violation(body, &f.message);
        run.finish(&stats);
    }
    let rounds = tier.pick(1, 4);
    let n = tier.pick(160, 800);
    for r in 0..rounds {
        if run_round(&C03, sut, &mut run, &mut stats, 100 + r as u64, n, (120, 700)) {
            break;
        }
    }
    stats.check_health("C03");
    run.finish(&stats)
}
