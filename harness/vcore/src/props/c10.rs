//! C10 — encase + glam structs serialise every field at its WGSL offset.

use crate::chooser::Ch;
use crate::engine::*;
use crate::exec::*;
use crate::expect;
use crate::gen::{gen_shader, Profile, TyProfile};
use crate::layout::*;
use crate::model::*;
use crate::preflight;
use crate::render::render;
use crate::sut::*;
use serde_json::{json, Value};
use std::fmt::Write;

pub struct C10 {
    pub attrs: bool,
}

pub fn profile(attrs: bool) -> Profile {
    let mut p = Profile::base();
    p.host_structs = (1, 3);
    p.members = (1, 5);
    p.ty = TyProfile::full();
    p.ty.f64_ = false;
    p.ty.square_mats = true;
    p.ty.attrs = attrs;
    p.ty.friendly = 1;
    p.ty.max_array = 4;
    p.groups = (1, 2);
    p.bindings = (1, 3);
    p.w_buf = 8;
    p.w_tex = 0;
    p.w_samp = 0;
    p.w_stex = 0;
    p.funcs = (0, 0);
    p.stmts = (0, 1);
    p.entries = [(0, 1), (0, 1), (0, 1)];
    // vertex input structs that are also storage buffers (the documented option set has
    // derive_bytemuck_vertex on)
    p.io_structs = true;
    p.entries = [(0, 2), (0, 1), (0, 1)];
    p.vertex_struct_params = (0, 2);
    p.vin_as_storage = 5;
    p.f64_vertex = false;
    p.push = 0;
    p.private = 0;
    p.workgroup = 0;
    p.unused_structs = (0, 0);
    p.nonascii = 0;
    p.keyword_names = 1;
    p.overrides = 3;
    p.ov_sized_array = 5;
    p.private = 3;
    p.workgroup = 3;
    p.ty.len_edges = 3;
    p
}

fn pattern(sc: Sc, k: u32) -> u32 {
    match sc {
        Sc::F32 => 0x4000_0000 + k * 7919,
        _ => (k + 1).wrapping_mul(0x0100_0193) | 0x0100_0000,
    }
}

fn scalar_expr(sc: Sc, bits: u32) -> String {
    match sc {
        Sc::F32 => format!("f32::from_bits({bits}u32)"),
        Sc::I32 => format!("({bits}u32 as i32)"),
        Sc::U32 => format!("{bits}u32"),
        _ => unreachable!(),
    }
}

fn glam_vec(n: u8, sc: Sc) -> String {
    let p = match sc {
        Sc::F32 => "Vec",
        Sc::I32 => "IVec",
        Sc::U32 => "UVec",
        _ => unreachable!(),
    };
    format!("glam::{p}{n}")
}

/// Rust expression of a value whose scalar components carry consecutive unique patterns, in the
/// canonical traversal order (the same order as `wgsl_component_offsets`).
fn value_expr(ty: &Ty, structs: &[StructDef], k: &mut u32, rt_len: u32, out_bits: &mut Vec<u32>) -> String {
    match ty {
        Ty::S(s) | Ty::At(s) => {
            let b = pattern(*s, *k);
            *k += 1;
            out_bits.push(b);
            scalar_expr(*s, b)
        }
        Ty::V(n, s) => {
            let comps: Vec<String> = (0..*n).map(|_| value_expr(&Ty::S(*s), structs, k, rt_len, out_bits)).collect();
            format!("{}::new({})", glam_vec(*n, *s), comps.join(", "))
        }
        Ty::M { c, r, s } => {
            let cols: Vec<String> = (0..*c).map(|_| value_expr(&Ty::V(*r, *s), structs, k, rt_len, out_bits)).collect();
            format!("glam::Mat{c}::from_cols({})", cols.join(", "))
        }
        Ty::A(e, n) if *n > 64 && matches!(**e, Ty::S(Sc::F32 | Sc::I32 | Sc::U32)) => {
            // a long array of scalars: the same consecutive patterns, computed by the probe itself
            let Ty::S(sc) = **e else { unreachable!() };
            let k0 = *k;
            for i in 0..*n {
                out_bits.push(pattern(sc, k0 + i));
            }
            *k += *n;
            match sc {
                Sc::F32 => format!("::core::array::from_fn(|i| f32::from_bits(0x4000_0000u32 + ({k0}u32 + i as u32) * 7919))"),
                Sc::I32 => format!("::core::array::from_fn(|i| ((({k0}u32 + i as u32 + 1).wrapping_mul(0x0100_0193) | 0x0100_0000) as i32))"),
                _ => format!("::core::array::from_fn(|i| (({k0}u32 + i as u32 + 1).wrapping_mul(0x0100_0193) | 0x0100_0000))"),
            }
        }
        Ty::A(e, n) => {
            let els: Vec<String> = (0..*n).map(|_| value_expr(e, structs, k, rt_len, out_bits)).collect();
            format!("[{}]", els.join(", "))
        }
        Ty::RA(e) => {
            let els: Vec<String> = (0..rt_len).map(|_| value_expr(e, structs, k, rt_len, out_bits)).collect();
            format!("vec![{}]", els.join(", "))
        }
        Ty::St(i) => {
            let mut s = format!("CASEMOD::{} {{ ", expect::rid(&structs[*i].name));
            for m in &structs[*i].members {
                let v = value_expr(&m.ty, structs, k, rt_len, out_bits);
                write!(s, "{}: {v}, ", expect::rid(&m.name)).unwrap();
            }
            s.push('}');
            s
        }
    }
}

/// top-level written structs: (struct index, uniform?, rt_len)
fn targets(sh: &Shader, extra: &Value) -> Vec<(usize, bool, u32)> {
    let mut v: Vec<(usize, bool, u32)> = Vec::new();
    let lens = extra["rt_lens"].as_array().cloned().unwrap_or_default();
    for g in &sh.globals {
        if let GKind::Buf { space, ty: Ty::St(i) } = &g.kind {
            if matches!(space, Space::Uniform | Space::StorageR | Space::StorageRW) {
                let uni = *space == Space::Uniform;
                if let Some(t) = v.iter_mut().find(|t| t.0 == *i) {
                    t.1 |= uni;
                } else {
                    let n = lens.get(v.len()).and_then(|x| x.as_u64()).unwrap_or(1) as u32;
                    v.push((*i, uni, n));
                }
            }
        }
    }
    v
}

pub fn probe_source(sh: &Shader, extra: &Value) -> String {
    let mut s = String::from("use super::*;\nuse serde_json::json;\npub fn probe() -> serde_json::Value {\n    let mut out = serde_json::Map::new();\n");
    for (si, uniform, rt_len) in targets(sh, extra) {
        let mut k = 0;
        let mut bits = Vec::new();
        let v = value_expr(&Ty::St(si), &sh.structs, &mut k, rt_len, &mut bits);
        let name = &sh.structs[si].name;
        writeln!(s, "    {{\n        let v = {v};\n        let mut m = serde_json::Map::new();").unwrap();
        s.push_str("        let mut sb = encase::StorageBuffer::new(Vec::<u8>::new());\n        sb.write(&v).unwrap();\n        m.insert(\"storage\".into(), json!(sb.into_inner()));\n");
        if uniform {
            s.push_str("        let mut ub = encase::UniformBuffer::new(Vec::<u8>::new());\n        ub.write(&v).unwrap();\n        m.insert(\"uniform\".into(), json!(ub.into_inner()));\n");
        }
        writeln!(s, "        out.insert({name:?}.into(), m.into());\n    }}").unwrap();
    }
    s.push_str("    out.into()\n}\n");
    s
}

pub fn judge_obs(sh: &Shader, extra: &Value, obs: &Value) -> Result<(), String> {
    for (si, uniform, rt_len) in targets(sh, extra) {
        let sd = &sh.structs[si];
        let mut k = 0;
        let mut bits = Vec::new();
        let _ = value_expr(&Ty::St(si), &sh.structs, &mut k, rt_len, &mut bits);
        let mut comps = Vec::new();
        wgsl_component_offsets(&Ty::St(si), &sh.structs, 0, rt_len, &mut comps);
        assert_eq!(comps.len(), bits.len());
        let sl = wgsl_struct_layout(sd, &sh.structs);
        let has_rt = expect::ends_in_rt_array(sd);
        let size_for = |n: u32| -> u32 {
            if !has_rt {
                return sl.size;
            }
            let last = sd.members.last().unwrap();
            let Ty::RA(e) = &last.ty else { unreachable!() };
            round_up(sl.align, sl.offsets.last().unwrap() + n * wgsl_stride(e, &sh.structs))
        };
        let allowed: Vec<u32> = if has_rt && rt_len == 0 { vec![size_for(0), size_for(1)] } else { vec![size_for(rt_len)] };
        let mut kinds = vec!["storage"];
        if uniform {
            kinds.push("uniform");
        }
        for kind in kinds {
            let img: Vec<u8> = obs[&sd.name][kind].as_array().map(|a| a.iter().map(|x| x.as_u64().unwrap_or(0) as u8).collect()).ok_or_else(|| format!("no {kind} image for `{}`", sd.name))?;
            if !allowed.contains(&(img.len() as u32)) {
                return Err(format!("encase {kind} image of `{}` is {} bytes; the WGSL size is {:?} (runtime array elements: {rt_len})", sd.name, img.len(), allowed));
            }
            for ((off, _sc), b) in comps.iter().zip(bits.iter()) {
                let o = *off as usize;
                let got = img.get(o..o + 4).map(|s| u32::from_le_bytes([s[0], s[1], s[2], s[3]]));
                if got != Some(*b) {
                    // name the member
                    let mi = sl.offsets.iter().rposition(|m| *m <= *off).unwrap_or(0);
                    return Err(format!(
                        "encase {kind} image of `{}`: the component at WGSL offset {off} (member `{}`: {}, member offset {}) holds {:?}, expected the value written to that component ({b:#x})",
                        sd.name,
                        sd.members[mi].name,
                        sd.members[mi].ty.wgsl(&sh.structs),
                        sl.offsets[mi],
                        got.map(|g| format!("{g:#x}"))
                    ));
                }
            }
        }
    }
    Ok(())
}

impl ExecProp for C10 {
    fn id(&self) -> &'static str {
        "C10"
    }
    fn build(&self, choices: &[u32], _stats: &mut Stats) -> Option<Built> {
        let mut ch = Ch::new(choices);
        let head: Vec<u32> = (0..6).map(|_| ch.raw()).collect();
        let mut h = Ch::new(&head);
        let sh = gen_shader(&mut ch, &profile(self.attrs));
        let rt_lens: Vec<u32> = (0..4).map(|_| h.below(4)).collect();
        let wgsl = render(&sh);
        // the documented recommendation: encase + glam, with and without bytemuck for vertex inputs
        let mut opts = Opts { encase_host: true, repr: Repr::Glam, bytemuck_vertex: h.flip(), ..Opts::default() };
        // Pod's padding rejection on a vertex-only struct is a permitted compile failure (C01/C05), not this property's subject
        if expect::predict_module(&sh, &opts).iter().any(|(_, c)| *c != expect::CompileOutcome::Compiles) {
            opts.bytemuck_vertex = false;
        }
        Some(Built { sh, wgsl, include_path: None, opts, extra: json!({"rt_lens": rt_lens}), files: vec![] })
    }
    fn probe_src(&self, b: &Built) -> String {
        probe_source(&b.sh, &b.extra)
    }
    fn observes_item(&self, kind: &str, name: &str) -> bool {
        kind == "struct" && !matches!(name, "VertexEntry" | "FragmentEntry" | "OverrideConstants")
    }
    fn judge(&self, b: &Built, _text: &str, obs: &Value, _stats: &mut Stats) -> Verdict {
        match judge_obs(&b.sh, &b.extra, obs) {
            Ok(()) => Verdict::Ok,
            Err(m) => Verdict::Violation(m),
        }
    }
    fn nontrivial(&self, b: &Built) -> bool {
        targets(&b.sh, &b.extra).iter().any(|(si, _, n)| {
            let sd = &b.sh.structs[*si];
            let vec3_then_scalar = sd.members.windows(2).any(|w| matches!(w[0].ty, Ty::V(3, _)) && matches!(w[1].ty, Ty::S(_)));
            vec3_then_scalar
                || sd.members.iter().any(|m| {
                    matches!(&m.ty, Ty::A(e, _) if matches!(**e, Ty::V(3, _))) || matches!(m.ty, Ty::M { c: 3, r: 3, .. }) || matches!(m.ty, Ty::St(_)) || (matches!(m.ty, Ty::RA(_)) && *n >= 1)
                })
        })
    }
    fn classes(&self, b: &Built, stats: &mut Stats) {
        for (si, uni, n) in targets(&b.sh, &b.extra) {
            let sd = &b.sh.structs[si];
            stats.class("written_struct");
            stats.class_if(uni, "uniform_buffer_write");
            stats.class_if(sd.members.windows(2).any(|w| matches!(w[0].ty, Ty::V(3, _)) && matches!(w[1].ty, Ty::S(_))), "vec3_then_scalar");
            stats.class_if(sd.members.iter().any(|m| matches!(&m.ty, Ty::A(e, _) if matches!(**e, Ty::V(3, _)))), "array_of_vec3");
            stats.class_if(sd.members.iter().any(|m| matches!(m.ty, Ty::M { c: 3, r: 3, .. })), "mat3x3");
            stats.class_if(sd.members.iter().any(|m| matches!(m.ty, Ty::St(_))), "nested_struct");
            if expect::ends_in_rt_array(sd) {
                stats.class(&format!("runtime_array_len={n}"));
            }
            stats.class_if(sd.members.iter().any(|m| m.size_attr.is_some() || m.align_attr.is_some()), "explicit_size_or_align");
        }
    }
}

pub fn eval_replay(sut: &dyn Sut, v: &Value) -> Result<(), String> {
    eval_replay_exec(&C10 { attrs: true }, sut, v)
}

pub fn run(sut: &dyn Sut, tier: Tier) -> ! {
    preflight::quiet_panics();
    let mut run = Run::new("C10", tier);
    run.rule = "generated host-shareable structs restricted to what encase and glam represent (f32/i32/u32 scalars and vec2-4, square f32 matrices, atomics, fixed arrays and nested structs of those, trailing runtime arrays with 0-3 elements) bound as storage / uniform buffers, with derive_encase_host_shareable and the glam representation, derive_bytemuck_vertex on and off; vertex input structs are also bound as storage buffers. The probe builds a value whose every scalar component has a unique bit pattern and writes it with encase::StorageBuffer::write (and UniformBuffer::write for structs used in var<uniform>); the image length must be the WGSL size and every component's 4 bytes must sit at the WGSL component offset computed by the harness's layout model; padding bytes are not compared. Members with explicit @size/@align are known finding K4 (excluded from the search, reported from the canary). Non-trivial = a vec3 followed by a scalar, an array of vec3, a mat3x3, a nested struct, or a runtime array with >= 1 element; distinct by (wgsl, options).".to_string();
    run.assumptions = vec!["f64 members are outside: encase 0.10 has no f64 support".into(), "for a runtime array with 0 elements both the 0-element and the 1-element (minimum binding) size are accepted".into()];
    let mut stats = Stats::new();
    run.canaries(&mut |v| eval_replay(sut, v));
    let rounds = tier.pick(1, 8);
    let n = tier.pick(800, 1600);
    // VERIF_C10_ATTRS=1 (developer aid) searches the excluded class of known finding K4
    let p = C10 { attrs: std::env::var("VERIF_C10_ATTRS").is_ok() };
    for r in 0..rounds {
        if run_round(&p, sut, &mut run, &mut stats, r as u64 + 1, n, (100, 600)) {
            break;
        }
    }
    stats.check_health("C10");
    run.finish(&stats)
}
