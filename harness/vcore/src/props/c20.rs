//! C20 — generation cost stays polynomial in shader size and call depth.
//! Observation: CPU seconds consumed by one generator call in a worker child (never wall clock).

use crate::chooser::{hash_str, Ch};
use crate::engine::*;
use crate::sut::*;
use crate::worker::*;
use serde_json::json;
use std::fmt::Write;

pub const CPU_THRESHOLD_S: f64 = 2.0;
pub const CPU_KILL_S: u64 = 12;

#[derive(Clone, Debug)]
pub struct Case {
    pub family: String,
    pub wgsl: String,
    pub depth: usize,
    pub items: usize,
}

fn header() -> String {
    "@group(0) @binding(0) var<storage, read_write> data: array<f32>;\n".to_string()
}

fn call(form: usize, callee: &str) -> String {
    match form % 12 {
        0 => format!("    acc = acc + {callee}(acc);\n"),
        1 => format!("    let t_{form} = {callee}(acc);\n    acc = acc + t_{form};\n"),
        2 => format!("    if ({callee}(acc) > 0.5) {{ acc = acc + 1.0; }}\n"),
        3 => format!("    for (var i = 0; i < 2; i++) {{ acc = max(acc, {callee}(acc)); }}\n"),
        4 => format!("    switch (i32(acc)) {{ case 1: {{ acc = {callee}(acc); }} default: {{ acc = acc * {callee}(1.0); }} }}\n"),
        5 => format!("    loop {{ acc = acc + 1.0; if (acc > 9.0) {{ break; }} continuing {{ acc = acc + {callee}(acc); }} }}\n"),
        6 => format!("    {callee}(acc);\n"),
        // the same callee in both arms of an if / else
        7 => format!("    if (acc > 0.5) {{ acc = {callee}(acc); }} else {{ acc = acc - {callee}(1.0); }}\n"),
        // ... in an else-if ladder
        8 => format!("    if (acc > 3.0) {{ acc = {callee}(acc); }} else if (acc > 2.0) {{ acc = {callee}(2.0); }} else {{ acc = {callee}(3.0) + 1.0; }}\n"),
        // the call is the `break if` condition of a loop
        10 => format!("    loop {{ acc = acc + 1.0; continuing {{ break if {callee}(acc) > 0.5; }} }}\n"),
        // ... the condition of a while loop and the initialiser / update of a for loop
        11 => format!("    while ({callee}(acc) > 100.0) {{ acc = acc - 1.0; }}\n    for (var j = {callee}(1.0); j < 2.0; j = j + {callee}(2.0) + 1.0) {{ acc = acc + j; }}\n"),
        // ... in a nested block of one arm and a loop in the other
        _ => format!("    if (acc > 0.5) {{ {{ if (acc > 0.7) {{ acc = {callee}(acc); }} }} }} else {{ loop {{ acc = {callee}(acc); break; }} }}\n"),
    }
}

/// f_i calls f_{i-1} through the *same* call form at every level (a cost that doubles per level for
/// one form only stays invisible when the forms rotate)
pub fn chain_uniform(depth: usize, form: usize) -> Case {
    chain_uniform_n(depth, form, 1)
}

/// ... with `fanin` call sites of that one form per level
pub fn chain_uniform_n(depth: usize, form: usize, fanin: usize) -> Case {
    let mut s = header();
    s.push_str("fn f_0(x: f32) -> f32 { return x + data[0]; }\n");
    for i in 1..=depth {
        // every call site in its own block (the `let` form declares a name)
        let one = call(form, &format!("f_{}", i - 1));
        let body = if fanin == 1 { one } else { format!("    {{\n{one}    }}\n").repeat(fanin) };
        writeln!(s, "fn f_{i}(x: f32) -> f32 {{\n    var acc: f32 = x;\n{body}    return acc;\n}}").unwrap();
    }
    writeln!(s, "@compute @workgroup_size(1)\nfn main() {{\n    var acc: f32 = 1.0;\n    acc = acc + f_{depth}(acc);\n    data[0] = acc;\n}}").unwrap();
    Case { family: format!("chain_uniform(depth={depth},form={form},fanin={fanin})"), items: depth + 1, depth, wgsl: s }
}

/// f_0 touches the buffer; f_i calls f_{i-1} `fanin` times, with call forms rotating from `form0`.
pub fn chain(depth: usize, fanin: usize, form0: usize, void_every: usize) -> Case {
    let mut s = header();
    s.push_str("fn f_0(x: f32) -> f32 { return x + data[0]; }\n");
    for i in 1..=depth {
        let void = void_every > 0 && i % void_every == 0 && i != depth;
        // a void function is called as a statement by the next level
        let prev_void = void_every > 0 && (i - 1) % void_every == 0 && i - 1 != 0;
        let mut body = String::new();
        for k in 0..fanin {
            if prev_void {
                writeln!(body, "    f_{}(acc);", i - 1).unwrap();
            } else {
                body.push_str(&call(form0 + i + k, &format!("f_{}", i - 1)));
            }
        }
        if void {
            writeln!(s, "fn f_{i}(x: f32) {{\n    var acc: f32 = x;\n{body}    data[1] = acc;\n}}").unwrap();
        } else {
            writeln!(s, "fn f_{i}(x: f32) -> f32 {{\n    var acc: f32 = x;\n{body}    return acc;\n}}").unwrap();
        }
    }
    writeln!(s, "@compute @workgroup_size(1)\nfn main() {{\n    var acc: f32 = 1.0;\n    acc = acc + f_{depth}(acc);\n    data[0] = acc;\n}}").unwrap();
    Case { family: format!("chain(depth={depth},fanin={fanin},form={form0},void_every={void_every})"), items: depth + 1, depth, wgsl: s }
}

/// helpers that receive a texture and a sampler (kind 0), a pointer to a function-scope variable
/// (kind 1) or both (kind 2) as parameters and hand them on; f_i calls f_{i-1} `fanin` times
pub fn chain_params(depth: usize, fanin: usize, kind: usize) -> Case {
    let mut s = header();
    s.push_str("@group(0) @binding(1) var tex: texture_2d<f32>;\n@group(0) @binding(2) var smp: sampler;\n");
    let (params, args) = match kind % 3 {
        0 => ("t: texture_2d<f32>, s: sampler, x: f32", "t, s, "),
        1 => ("p: ptr<function, f32>, x: f32", "p, "),
        _ => ("t: texture_2d<f32>, s: sampler, p: ptr<function, f32>, x: f32", "t, s, p, "),
    };
    let leaf = match kind % 3 {
        0 => "return x + textureSampleLevel(t, s, vec2<f32>(x, x), 0.0).x + data[0];",
        1 => "*p = *p + x; return *p + data[0];",
        _ => "*p = *p + textureSampleLevel(t, s, vec2<f32>(x, x), 0.0).x; return *p + data[0];",
    };
    writeln!(s, "fn f_0({params}) -> f32 {{ {leaf} }}").unwrap();
    for i in 1..=depth {
        let mut body = String::new();
        for k in 0..fanin {
            let callee = format!("f_{}", i - 1);
            body.push_str(&call(i + k, &callee).replace(&format!("{callee}("), &format!("{callee}({args}")));
        }
        writeln!(s, "fn f_{i}({params}) -> f32 {{\n    var acc: f32 = x;\n{body}    return acc;\n}}").unwrap();
    }
    let top_args = match kind % 3 {
        0 => "tex, smp, ",
        1 => "&loc, ",
        _ => "tex, smp, &loc, ",
    };
    writeln!(s, "@fragment\nfn main() -> @location(0) vec4<f32> {{\n    var acc: f32 = 1.0;\n    var loc: f32 = 0.0;\n    acc = acc + f_{depth}({top_args}acc);\n    return vec4<f32>(acc);\n}}").unwrap();
    Case { family: format!("chain_params(depth={depth},fanin={fanin},kind={})", ["texture+sampler", "pointer", "texture+sampler+pointer"][kind % 3]), items: depth + 1, depth, wgsl: s }
}

/// helpers that return bool and are used *directly* as conditions (no comparison around the call):
/// `if (b(x))`, `break if b(x);`, `while (b(x))`, `b(x) && b(y)`; b_i uses b_{i-1} `fanin` times
pub fn chain_bool(depth: usize, fanin: usize, form: usize) -> Case {
    let mut s = header();
    s.push_str("fn b_0(x: f32) -> bool { return x + data[0] > 0.5; }\n");
    for i in 1..=depth {
        let c = format!("b_{}", i - 1);
        let mut body = String::new();
        for k in 0..fanin {
            let arg = format!("acc + {k}.0");
            match form % 5 {
                0 => writeln!(body, "    if ({c}({arg})) {{ acc = acc + 1.0; }}").unwrap(),
                1 => writeln!(body, "    loop {{ acc = acc + 1.0; continuing {{ break if {c}({arg}); }} }}").unwrap(),
                2 => writeln!(body, "    while ({c}({arg})) {{ acc = acc - 1.0; break; }}").unwrap(),
                3 => writeln!(body, "    {{ let both = {c}({arg}) && !{c}(acc); if (both) {{ acc = acc * 2.0; }} }}").unwrap(),
                _ => writeln!(body, "    {{ let sel = select(1.0, 2.0, {c}({arg})); acc = acc + sel; }}").unwrap(),
            }
        }
        writeln!(s, "fn b_{i}(x: f32) -> bool {{\n    var acc: f32 = x;\n{body}    return acc > 3.0;\n}}").unwrap();
    }
    writeln!(s, "@compute @workgroup_size(1)\nfn main() {{\n    var acc: f32 = 1.0;\n    if (b_{depth}(acc)) {{ data[0] = acc; }}\n}}").unwrap();
    Case { family: format!("chain_bool(depth={depth},fanin={fanin},form={})", ["if", "break_if", "while", "logical", "select"][form % 5]), items: depth + 1, depth, wgsl: s }
}

/// the same helper graph shared by entry points of all three stages (and two of one stage)
pub fn shared(base: Case, top_call: &str) -> Case {
    // strip the single entry point of `base` and add four
    let cut = base.wgsl.rfind("@compute").or(base.wgsl.rfind("@fragment")).or(base.wgsl.rfind("@vertex")).unwrap_or(base.wgsl.len());
    let mut s = base.wgsl[..cut].to_string();
    writeln!(s, "@vertex\nfn vs_a() -> @builtin(position) vec4<f32> {{\n    var acc: f32 = 1.0;\n    {top_call}\n    return vec4<f32>(acc);\n}}").unwrap();
    writeln!(s, "@fragment\nfn fs_a() -> @location(0) vec4<f32> {{\n    var acc: f32 = 1.0;\n    {top_call}\n    return vec4<f32>(acc);\n}}").unwrap();
    writeln!(s, "@vertex\nfn vs_b() -> @builtin(position) vec4<f32> {{\n    var acc: f32 = 2.0;\n    {top_call}\n    return vec4<f32>(acc);\n}}").unwrap();
    writeln!(s, "@compute @workgroup_size(1)\nfn cs_a() {{\n    var acc: f32 = 1.0;\n    {top_call}\n}}").unwrap();
    Case { family: format!("shared_by_4_entries[{}]", base.family), wgsl: s, ..base }
}

/// helpers without a return value only: v_i calls v_{i-1} `fanin` times as call statements
pub fn void_chain(depth: usize, fanin: usize) -> Case {
    let mut s = header();
    s.push_str("fn v_0(x: f32) { data[0] = x; }\n");
    for i in 1..=depth {
        let mut body = String::new();
        for k in 0..fanin {
            match (i + k) % 3 {
                0 => writeln!(body, "    v_{}(x);", i - 1).unwrap(),
                1 => writeln!(body, "    if (x > 0.5) {{ v_{}(x); }}", i - 1).unwrap(),
                _ => writeln!(body, "    for (var i = 0; i < 2; i++) {{ v_{}(x + 1.0); }}", i - 1).unwrap(),
            }
        }
        writeln!(s, "fn v_{i}(x: f32) {{\n{body}}}").unwrap();
    }
    writeln!(s, "@compute @workgroup_size(1)\nfn main() {{\n    v_{depth}(1.0);\n}}").unwrap();
    Case { family: format!("void_chain(depth={depth},fanin={fanin})"), items: depth + 1, depth, wgsl: s }
}

/// layers of `width` functions, every function of layer i calls every function of layer i-1.
pub fn diamond(layers: usize, width: usize, form0: usize) -> Case {
    let mut s = header();
    for w in 0..width {
        writeln!(s, "fn d_0_{w}(x: f32) -> f32 {{ return x + data[{w}]; }}").unwrap();
    }
    for l in 1..=layers {
        for w in 0..width {
            let mut body = String::new();
            for c in 0..width {
                body.push_str(&call(form0 + l + w + c, &format!("d_{}_{}", l - 1, c)));
            }
            writeln!(s, "fn d_{l}_{w}(x: f32) -> f32 {{\n    var acc: f32 = x;\n{body}    return acc;\n}}").unwrap();
        }
    }
    writeln!(s, "@fragment\nfn main() -> @location(0) vec4<f32> {{\n    var acc: f32 = 1.0;\n    acc = d_{layers}_0(acc);\n    return vec4<f32>(acc);\n}}").unwrap();
    Case { family: format!("diamond(layers={layers},width={width},form={form0})"), items: (layers + 1) * width, depth: layers, wgsl: s }
}

/// `n` entry-level helpers all calling one shared chain of depth `depth`.
pub fn fanout(n: usize, depth: usize) -> Case {
    let mut s = header();
    s.push_str("fn s_0(x: f32) -> f32 { return x + data[0]; }\n");
    for i in 1..=depth {
        writeln!(s, "fn s_{i}(x: f32) -> f32 {{ return s_{}(x) + s_{}(x + 1.0); }}", i - 1, i - 1).unwrap();
    }
    for k in 0..n {
        writeln!(s, "fn u_{k}(x: f32) -> f32 {{ return s_{depth}(x) * {k}.0; }}").unwrap();
    }
    s.push_str("@compute @workgroup_size(1)\nfn main() {\n    var acc: f32 = 1.0;\n");
    for k in 0..n {
        writeln!(s, "    acc = acc + u_{k}(acc);").unwrap();
    }
    s.push_str("    data[0] = acc;\n}\n");
    Case { family: format!("fanout(n={n},depth={depth})"), items: n + depth + 1, depth: depth + 1, wgsl: s }
}

/// nested struct types: T_i has `fan` members of type T_{i-1} (directly or through arrays)
pub fn types(depth: usize, fan: usize, through_array: bool) -> Case {
    let mut s = String::new();
    s.push_str("struct T_0 { a: f32, }\n");
    for i in 1..=depth {
        write!(s, "struct T_{i} {{ ").unwrap();
        for k in 0..fan {
            if through_array && k % 2 == 1 {
                write!(s, "m{k}: array<T_{}, 1>, ", i - 1).unwrap();
            } else {
                write!(s, "m{k}: T_{}, ", i - 1).unwrap();
            }
        }
        s.push_str("}\n");
    }
    writeln!(s, "@group(0) @binding(0) var<storage, read> big: T_{depth};").unwrap();
    s.push_str("@compute @workgroup_size(1)\nfn main() { }\n");
    Case { family: format!("types(depth={depth},fan={fan},array={through_array})"), items: depth + 1, depth, wgsl: s }
}

pub fn wide(bindings: usize, members: usize, consts: usize, entries: usize) -> Case {
    let mut s = String::new();
    s.push_str("struct W {\n");
    for m in 0..members.max(1) {
        writeln!(s, "    m{m}: vec4<f32>,").unwrap();
    }
    s.push_str("}\n");
    for c in 0..consts {
        writeln!(s, "const K_{c}: f32 = {c}.5;").unwrap();
    }
    for b in 0..bindings {
        match b % 3 {
            0 => writeln!(s, "@group({}) @binding({}) var<uniform> r_{b}: W;", b % 4, b).unwrap(),
            1 => writeln!(s, "@group({}) @binding({}) var r_{b}: texture_2d<f32>;", b % 4, b).unwrap(),
            _ => writeln!(s, "@group({}) @binding({}) var<storage, read_write> r_{b}: array<vec4<f32>>;", b % 4, b).unwrap(),
        }
    }
    for e in 0..entries.max(1) {
        writeln!(s, "@compute @workgroup_size(1)\nfn main_{e}() {{\n    var acc: f32 = 0.0;").unwrap();
        for b in (0..bindings).filter(|b| b % 3 == 0) {
            writeln!(s, "    acc = acc + r_{b}.m0.x;").unwrap();
        }
        s.push_str("}\n");
    }
    Case { family: format!("wide(bindings={bindings},members={members},consts={consts},entries={entries})"), items: bindings + members + consts, depth: 1, wgsl: s }
}

/// random DAG of `n` helper functions; function i calls up to `k` lower-numbered functions.
pub fn random_dag(ch: &mut Ch) -> Case {
    let n = ch.usize_range(4, 300);
    let maxk = ch.usize_range(1, 4);
    // locality: callees are drawn from the `window` previous functions, so depth grows with n/window
    let window = ch.usize_range(1, 12);
    let mut s = header();
    // several resources, each touched by few helpers: which of them an entry point reaches depends on
    // the whole traversal (matters to the properties that reuse these graphs, not to the cost)
    let nres = ch.usize_range(0, 7);
    for r in 0..nres {
        writeln!(s, "@group(0) @binding({}) var<storage, read_write> data{r}: array<f32>;", r + 1).unwrap();
    }
    let mut is_void = vec![false; n];
    let mut depth = vec![0usize; n];
    for i in 0..n {
        let void = i > 0 && ch.chance(1, 5);
        is_void[i] = void;
        let mut body = String::new();
        if i == 0 || ch.chance(1, 6) {
            if nres > 0 && ch.chance(3, 4) {
                writeln!(body, "    acc = acc + data{}[{i}];", ch.idx(nres)).unwrap();
            } else {
                writeln!(body, "    acc = acc + data[{i}];").unwrap();
            }
        }
        if i > 0 {
            let k = ch.usize_range(1, maxk);
            for c in 0..k {
                let lo = i.saturating_sub(window);
                let callee = lo + ch.idx(i - lo);
                depth[i] = depth[i].max(depth[callee] + 1);
                if is_void[callee] {
                    writeln!(body, "    g_{callee}(acc);").unwrap();
                } else {
                    let form = ch.below(12) as usize;
                    body.push_str(&call(form * 13 + c, &format!("g_{callee}")).replace(&format!("t_{}", form * 13 + c), &format!("t{c}")));
                }
            }
        }
        if void {
            writeln!(s, "fn g_{i}(x: f32) {{\n    var acc: f32 = x;\n{body}    data[0] = acc;\n}}").unwrap();
        } else {
            writeln!(s, "fn g_{i}(x: f32) -> f32 {{\n    var acc: f32 = x;\n{body}    return acc;\n}}").unwrap();
        }
    }
    let top = n - 1;
    let stage = ch.below(3);
    let callv = if is_void[top] { format!("g_{top}(acc);") } else { format!("acc = g_{top}(acc);") };
    match stage {
        0 => writeln!(s, "@compute @workgroup_size(1)\nfn main() {{\n    var acc: f32 = 1.0;\n    {callv}\n}}").unwrap(),
        1 => writeln!(s, "@fragment\nfn main() -> @location(0) vec4<f32> {{\n    var acc: f32 = 1.0;\n    {callv}\n    return vec4<f32>(acc);\n}}").unwrap(),
        _ => writeln!(s, "@vertex\nfn main() -> @builtin(position) vec4<f32> {{\n    var acc: f32 = 1.0;\n    {callv}\n    return vec4<f32>(acc);\n}}").unwrap(),
    }
    let d = depth[top];
    Case { family: format!("random_dag(n={n},maxk={maxk},window={window})"), items: n, depth: d, wgsl: s }
}

pub fn family_members(tier: Tier) -> Vec<Case> {
    let mut v = Vec::new();
    for d in [4usize, 8, 16, 20, 24, 32, 48, 64] {
        v.push(chain(d, 1, 0, 0));
        v.push(chain(d, 1, 2, 3));
        v.push(chain(d, 2, 1, 0));
        v.push(chain(d, 2, 6, 4));
    }
    for form in 0..12 {
        for d in [16usize, 48] {
            v.push(chain_uniform(d, form));
        }
        v.push(chain_uniform_n(40, form, 2));
    }
    for form in 0..5 {
        v.push(chain_bool(40, 2, form));
        v.push(chain_bool(24, 1, form));
    }
    for kind in 0..3 {
        for d in [8usize, 24, 48] {
            v.push(chain_params(d, 2, kind));
        }
        v.push(chain_params(32, 1, kind));
    }
    for d in [8usize, 16, 32, 64] {
        v.push(shared(chain(d, 1, 0, 0), &format!("acc = acc + f_{d}(acc);")));
        v.push(shared(chain(d, 2, 1, 0), &format!("acc = acc + f_{d}(acc);")));
        v.push(shared(void_chain(d, 2), &format!("v_{d}(acc);")));
    }
    for l in [8usize, 16, 32, 48] {
        v.push(shared(diamond(l, 2, 0), &format!("acc = d_{l}_0(acc);")));
    }
    for d in [8usize, 16, 24, 32, 48, 64] {
        v.push(void_chain(d, 1));
        v.push(void_chain(d, 2));
        v.push(void_chain(d, 3));
    }
    for l in [4usize, 8, 16, 24, 32, 40] {
        v.push(diamond(l, 2, 0));
        v.push(diamond(l, 3, 3));
    }
    for (n, d) in [(8usize, 8usize), (32, 16), (100, 24), (200, 32)] {
        v.push(fanout(n, d));
    }
    for d in [4usize, 8, 12, 16, 20, 22, 24, 26, 28, 29] {
        v.push(types(d, 2, false));
        v.push(types(d, 2, true));
    }
    v.push(types(14, 3, true));
    v.push(wide(300, 10, 10, 1));
    v.push(wide(30, 500, 10, 2));
    v.push(wide(30, 10, 600, 1));
    v.push(wide(200, 100, 100, 8));
    if tier == Tier::Thorough {
        for d in [28usize, 36, 40, 56, 60] {
            v.push(chain(d, 3, 4, 5));
            v.push(diamond(d, 4, 1));
        }
        v.push(wide(1000, 50, 50, 4));
        v.push(types(27, 2, true));
    }
    v
}

pub struct Measured {
    pub cpu_s: f64,
    pub killed: bool,
    pub outcome: Option<WOutcome>,
    pub raw: ChildResult,
}

pub fn measure(wgsl: &str, opts: &Opts) -> Measured {
    let req = gen_request(wgsl, None, opts);
    let r = run_child(&ChildSpec { cmd: "gen", request: &req, env_clear: false, env: vec![], cwd: None, cpu_limit_s: CPU_KILL_S, wall_limit_s: 120.0 });
    let outcome = r.response.as_ref().and_then(|v| woutcome_from_json(&v["outcome"]));
    let killed = r.signal == Some(libc::SIGXCPU) || r.signal == Some(libc::SIGKILL);
    let cpu = match (&r.response, killed) {
        (Some(v), _) => v["cpu_s"].as_f64().unwrap_or(0.0),
        (None, true) => r.cpu_s_at_end.unwrap_or(CPU_KILL_S as f64).max(if r.signal == Some(libc::SIGXCPU) { CPU_KILL_S as f64 } else { 0.0 }),
        (None, false) => r.cpu_s_at_end.unwrap_or(0.0),
    };
    Measured { cpu_s: cpu, killed, outcome, raw: r }
}

/// Ok(cpu) or Err(message). Infrastructure anomalies exit 2.
pub fn judge(c: &Case, stats: &mut Stats) -> Result<f64, String> {
    // generator soundness: the text must be valid WGSL (checked in-process; naga's own cost on these
    // shaders is part of what the worker measures, and is small -- see `naga_cpu` in the evidence)
    if let Err(e) = crate::preflight::preflight(&c.wgsl) {
        stats.generator_invalid += 1;
        if stats.generator_invalid <= 3 {
            eprintln!("generator-invalid {}: {e}", c.family);
        }
        return Ok(0.0);
    }
    let m = measure(&c.wgsl, &Opts::default());
    stats.evaluations += 1;
    let lines = c.wgsl.lines().count();
    if c.depth >= 16 || c.items >= 100 {
        stats.nontrivial_case(hash_str(&c.wgsl));
    }
    stats.class(c.family.split('(').next().unwrap_or("?"));
    stats.class_if(c.depth >= 16, "depth>=16");
    stats.class_if(c.depth >= 32, "depth>=32");
    stats.class_if(c.items >= 100, "items>=100");
    let ctx = || format!("family={} depth={} items={} lines={}", c.family, c.depth, c.items, lines);
    if m.raw.killed_by_watchdog {
        eprintln!("watchdog (wall clock) ended a C20 worker: inconclusive. {}", ctx());
        std::process::exit(2);
    }
    if m.killed && m.raw.signal == Some(libc::SIGXCPU) {
        return Err(format!("generation exceeded {CPU_KILL_S}s CPU and was killed (threshold {CPU_THRESHOLD_S}s). {}", ctx()));
    }
    match &m.outcome {
        None => {
            // crash (stack overflow etc.): not a cost statement; report as inconclusive for this case
            stats.skip(&format!("worker_crashed_signal_{:?}", m.raw.signal));
            Ok(m.cpu_s)
        }
        Some(o) => {
            if !matches!(o, WOutcome::Ok(_)) {
                stats.skip(&format!("not_ok:{}", o.brief().chars().take(40).collect::<String>()));
            }
            if m.cpu_s > CPU_THRESHOLD_S {
                Err(format!("generation took {:.2}s CPU for a {lines}-line shader (threshold {CPU_THRESHOLD_S}s). {}", m.cpu_s, ctx()))
            } else {
                Ok(m.cpu_s)
            }
        }
    }
}

pub fn eval_replay(_sut: &dyn Sut, v: &serde_json::Value) -> Result<(), String> {
    let c = Case { family: v["family"].as_str().unwrap_or("replay").to_string(), wgsl: v["wgsl"].as_str().unwrap_or("").to_string(), depth: 99, items: 0 };
    judge(&c, &mut Stats::new()).map(|_| ())
}

pub fn run(_sut: &dyn Sut, tier: Tier) -> ! {
    crate::preflight::quiet_panics();
    let mut run = Run::new("C20", tier);
    run.rule = format!("deterministic family members (call chains with 1-3 call sites per level and mixed value/void calls up to depth 64, chains of helpers without return value with 1-3 call statements per level up to depth 64, the same chains and diamonds shared by four entry points of three stages, diamonds up to 40 layers, fan-out to a shared chain, nested struct types up to depth 29 directly and through arrays, wide flat shaders with hundreds of bindings/members/constants) plus random helper DAGs of 4..300 functions drawn by proptest; each is generated in a worker child whose own CPU time (getrusage) is compared with {CPU_THRESHOLD_S}s; children are killed at {CPU_KILL_S}s CPU by RLIMIT_CPU. Non-trivial = call/type depth >= 16 or >= 100 functions/bindings/members; distinct by source text.");
    run.assumptions = vec![
        "cost is CPU seconds of the child (user+sys), never wall clock; the harness build has debug assertions on, which costs < 2x".into(),
        "shallow shaders of this size cost 1-30 ms (measured, reported as max_cpu_s), so the threshold has > 50x slack".into(),
    ];
    run.canaries(&mut |v| eval_replay(_sut, v));
    let mut stats = Stats::new();
    let mut max_cpu: f64 = 0.0;
    let mut worst = String::new();
    for c in family_members(tier) {
        match judge(&c, &mut stats) {
            Ok(cpu) => {
                if cpu > max_cpu {
                    max_cpu = cpu;
                    worst = c.family.clone();
                }
                stats.sample(|| json!({"family": c.family, "depth": c.depth, "lines": c.wgsl.lines().count(), "cpu_s": cpu}));
            }
            Err(m) => {
                run.violation(json!({"kind": "c20", "family": c.family, "wgsl": c.wgsl}), &m);
                stats.extra.insert("max_cpu_s".into(), json!(max_cpu));
                run.finish(&stats);
            }
        }
    }
    // random DAGs (parallel over 8 threads; each worker child is single-threaded)
    let n = tier.pick(400, 4000);
    let (_r, mut sampled) = sample(run.seed_for(1), n, (64, 3000));
    let cases: Vec<Case> = sampled
        .trees
        .iter()
        .map(|t| {
            let c = t.current();
            random_dag(&mut Ch::new(&c))
        })
        .collect();
    let results: Vec<(usize, Result<f64, String>, Stats)> = std::thread::scope(|s| {
        let chunks: Vec<Vec<usize>> = (0..8).map(|k| (0..cases.len()).filter(|i| i % 8 == k).collect()).collect();
        let hs: Vec<_> = chunks
            .into_iter()
            .map(|idxs| {
                let cases = &cases;
                s.spawn(move || {
                    let mut out = Vec::new();
                    for i in idxs {
                        let mut st = Stats::new();
                        let r = judge(&cases[i], &mut st);
                        out.push((i, r, st));
                    }
                    out
                })
            })
            .collect();
        let mut all: Vec<_> = hs.into_iter().flat_map(|h| h.join().unwrap()).collect();
        all.sort_by_key(|x| x.0);
        all
    });
    let mut first_fail: Option<(usize, String)> = None;
    for (i, r, st) in results {
        stats.evaluations += st.evaluations;
        stats.generator_invalid += st.generator_invalid;
        for h in st.nontrivial {
            stats.nontrivial.insert(h);
        }
        for (k, v) in st.classes {
            *stats.classes.entry(k).or_insert(0) += v;
        }
        for (k, v) in st.skipped {
            *stats.skipped.entry(k).or_insert(0) += v;
        }
        match r {
            Ok(cpu) => {
                if cpu > max_cpu {
                    max_cpu = cpu;
                    worst = cases[i].family.clone();
                }
                if i < 3 {
                    stats.max_samples = 8;
                    stats.sample(|| json!({"family": cases[i].family, "depth": cases[i].depth, "lines": cases[i].wgsl.lines().count(), "cpu_s": cpu}));
                }
            }
            Err(m) => {
                if first_fail.is_none() {
                    first_fail = Some((i, m));
                }
            }
        }
    }
    stats.extra.insert("max_cpu_s".into(), json!(max_cpu));
    stats.extra.insert("max_cpu_case".into(), json!(worst));
    if let Some((i, m)) = first_fail {
        // shrink (bounded: each evaluation is a child that may run for seconds)
        let mut scratch = Stats::new();
        let best = shrink_tree(&mut *sampled.trees[i], 30, &mut |c| judge(&random_dag(&mut Ch::new(c)), &mut scratch).is_err());
        let c = random_dag(&mut Ch::new(&best));
        let msg = match judge(&c, &mut scratch) {
            Err(m2) => m2,
            Ok(_) => m,
        };
        run.violation(json!({"kind": "c20", "family": c.family, "wgsl": c.wgsl, "choices": best}), &msg);
    }
    stats.check_health("C20");
    run.finish(&stats)
}
