//! C15 — module constants are exported with the WGSL type and exact value.

use crate::chooser::Ch;
use crate::engine::*;
use crate::exec::*;
use crate::model::*;
use crate::outread;
use crate::preflight;
use crate::render::render;
use crate::sut::*;
use serde_json::{json, Value};
use std::fmt::Write;

pub struct C15;

fn f32_lit(v: f32) -> String {
    // shortest round-trip decimal; WGSL needs a '.' or exponent or suffix for floats
    let s = format!("{v:e}");
    s
}

fn f64_lit(v: f64) -> String {
    format!("{v:e}lf")
}

const F32_EDGES: [f32; 14] = [
    0.0,
    -0.0,
    1.0,
    -1.0,
    0.1,
    1.5,
    f32::MAX,
    f32::MIN,
    f32::MIN_POSITIVE,
    1.0e-45,       // smallest subnormal
    8.5e-42,       // a subnormal
    16777217.0,    // not exactly representable: rounds
    3.1415927,
    -65504.0,
];

// naga 24's constant evaluator cannot negate f64 literals, so negative f64 values cannot be written
const F64_EDGES: [f64; 8] = [0.0, 1.5, 0.1, f64::MAX, f64::MIN_POSITIVE, 5e-324, 9007199254740993.0, 1e300];

pub fn gen_consts(ch: &mut Ch) -> Vec<ConstDef> {
    let n = ch.usize_range(1, 10);
    let mut out: Vec<ConstDef> = Vec::new();
    for i in 0..n {
        let kw = ["in", "dyn", "box"];
        let name = match ch.below(7) {
            6 if !out.iter().any(|c| kw.contains(&c.name.as_str())) => (*ch.pick(&kw)).to_string(),
            0 => format!("C_{i}"),
            1 => format!("k_{i}"),
            2 => format!("Größe_{i}"),
            3 => format!("MAX_VALUE_{i}"),
            4 => format!("camelCase{i}"),
            _ => format!("C{i}"),
        };
        let kind = ch.below(16);
        let (decl, expect) = match kind {
            0 => {
                let v = *ch.pick(&[0i32, 1, -1, 12, i32::MAX, i32::MIN + 1, i32::MIN, 65536, -7]);
                (format!(": i32 = {v}"), Some(ConstVal::I32(v)))
            }
            1 => {
                let v = *ch.pick(&[0u32, 1, 34, u32::MAX, 2147483648, 4294967294]);
                (format!(": u32 = {v}u"), Some(ConstVal::U32(v)))
            }
            2 => {
                let v = *ch.pick(&F32_EDGES);
                (format!(": f32 = {}", f32_lit(v)), Some(ConstVal::F32(v.to_bits())))
            }
            3 => {
                let v = *ch.pick(&F64_EDGES);
                (format!(": f64 = {}", f64_lit(v)), Some(ConstVal::F64(v.to_bits())))
            }
            4 => {
                let v = *ch.pick(&[0i64, -1, 9223372036854775807, -9223372036854775807, 4294967296, -4294967297]);
                (format!(": i64 = {v}li"), Some(ConstVal::I64(v)))
            }
            5 => {
                let v = *ch.pick(&[0u64, 1, u64::MAX, 9223372036854775808, 4294967296]);
                (format!(": u64 = {v}lu"), Some(ConstVal::U64(v)))
            }
            6 => {
                let v = ch.flip();
                (format!(": bool = {v}"), Some(ConstVal::Bool(v)))
            }
            7 => {
                // inferred types
                match ch.below(5) {
                    0 => {
                        let v = ch.range(0, 100000) as i32;
                        (format!(" = {v}"), Some(ConstVal::I32(v)))
                    }
                    1 => {
                        let v = ch.range(0, 100000) as i32;
                        (format!(" = -{v}"), Some(ConstVal::I32(-v)))
                    }
                    2 => {
                        let v = *ch.pick(&[0.5f32, 0.1, 2.0, 1e10, 1.0e-45]);
                        (format!(" = {}", f32_lit(v)), Some(ConstVal::F32(v.to_bits())))
                    }
                    3 => {
                        let v = ch.raw();
                        (format!(" = {v}u"), Some(ConstVal::U32(v)))
                    }
                    _ => {
                        let v = ch.flip();
                        (format!(" = {v}"), Some(ConstVal::Bool(v)))
                    }
                }
            }
            8 => {
                // folded integer expressions (no overflow)
                let a = ch.range(0, 1000) as i32;
                let b = ch.range(1, 1000) as i32;
                let c = ch.range(0, 50) as i32;
                match ch.below(4) {
                    0 => (format!(": i32 = {a} + {b} * {c}"), Some(ConstVal::I32(a + b * c))),
                    1 => (format!(": i32 = ({a} - {b}) * {c}"), Some(ConstVal::I32((a - b) * c))),
                    2 => (format!(": i32 = -({a} + {b})"), Some(ConstVal::I32(-(a + b)))),
                    _ => (format!(": u32 = {a}u * {c}u + {b}u"), Some(ConstVal::U32((a * c + b) as u32))),
                }
            }
            9 => {
                // folded float expressions on exactly representable operands
                let a = ch.range(0, 4096) as f32 * 0.25;
                let b = ch.range(1, 64) as f32 * 0.5;
                match ch.below(3) {
                    0 => (format!(": f32 = {} + {}", f32_lit(a), f32_lit(b)), Some(ConstVal::F32((a + b).to_bits()))),
                    1 => (format!(": f32 = {} * {} - {}", f32_lit(a), f32_lit(b), f32_lit(b)), Some(ConstVal::F32((a * b - b).to_bits()))),
                    _ => (format!(": f32 = -({})", f32_lit(a)), Some(ConstVal::F32((-a).to_bits()))),
                }
            }
            10 => {
                // conversions
                let a = ch.range(0, 100000);
                match ch.below(4) {
                    0 => (format!(": i32 = i32({a}u)"), Some(ConstVal::I32(a as i32))),
                    1 => (format!(": f32 = f32({a})"), Some(ConstVal::F32((a as f32).to_bits()))),
                    2 => (format!(": u32 = u32({a}.0f)"), Some(ConstVal::U32(a))),
                    _ => (format!(": f32 = f32({a}u) * 0.5"), Some(ConstVal::F32((a as f32 * 0.5).to_bits()))),
                }
            }
            11 | 12 => {
                // reference to an earlier scalar constant
                let prev: Vec<&ConstDef> = out.iter().filter(|c| c.expect.is_some()).collect();
                if prev.is_empty() {
                    (": i32 = 7".to_string(), Some(ConstVal::I32(7)))
                } else {
                    let p = (*ch.pick(&prev)).clone();
                    match p.expect.clone().unwrap() {
                        ConstVal::I32(v) if v.unsigned_abs() < 1_000_000 => (format!(": i32 = {} + 1", p.name), Some(ConstVal::I32(v + 1))),
                        ConstVal::U32(v) if v < 1_000_000 => (format!(": u32 = {} * 2u", p.name), Some(ConstVal::U32(v * 2))),
                        other => (format!(" = {}", p.name), Some(other)),
                    }
                }
            }
            // non-scalar constants, also built from zero-value constructors and other constants
            13 => ((*ch.pick(&[" = vec3<f32>(1.0, 2.0, 3.0)", " = vec3<f32>()", " = vec2<u32>()", ": vec4<i32> = vec4<i32>()", " = vec2<bool>()", " = vec4<f32>(0.5)"])).to_string(), None),
            14 => ((*ch.pick(&[" = array<i32, 2>(1, 2)", " = array<f32, 3>()", ": array<vec2<f32>, 2> = array<vec2<f32>, 2>()"])).to_string(), None),
            _ => ((*ch.pick(&[": mat2x2<f32> = mat2x2<f32>(1.0, 0.0, 0.0, 1.0)", " = mat3x3<f32>()", " = mat2x4<f32>()"])).to_string(), None),
        };
        out.push(ConstDef { name, decl, expect });
    }
    out
}

pub fn build_shader(ch: &mut Ch) -> Shader {
    let mut sh = Shader::default();
    sh.consts = gen_consts(ch);
    sh.entries.push(Entry { stage: Stage::Compute, name: "main".into(), params: vec![], result: EResult::None, wg: vec![WgDim::Lit(1)], body: vec![] });
    sh
}

pub fn probe_source(sh: &Shader) -> String {
    let mut s = String::new();
    s.push_str("use super::*;\nuse serde_json::json;\npub fn probe() -> serde_json::Value {\n    let mut out = serde_json::Map::new();\n");
    for c in &sh.consts {
        let Some(e) = &c.expect else { continue };
        let (ty, conv) = match e {
            ConstVal::I32(_) => ("i32", "v.to_string()"),
            ConstVal::U32(_) => ("u32", "v.to_string()"),
            ConstVal::I64(_) | ConstVal::AbstractInt(_) => ("i64", "v.to_string()"),
            ConstVal::U64(_) => ("u64", "v.to_string()"),
            ConstVal::F32(_) => ("f32", "v.to_bits().to_string()"),
            ConstVal::F64(_) | ConstVal::AbstractFloat(_) => ("f64", "v.to_bits().to_string()"),
            ConstVal::Bool(_) => ("bool", "v.to_string()"),
        };
        // the explicit annotation makes rustc check the exported type
        writeln!(s, "    {{ let v: {ty} = CASEMOD::{}; out.insert({:?}.into(), json!({conv})); }}", crate::expect::rid(&c.name), c.name).unwrap();
    }
    s.push_str("    out.into()\n}\n");
    s
}

fn expect_str(e: &ConstVal) -> (String, &'static str) {
    match e {
        ConstVal::I32(v) => (v.to_string(), "i32"),
        ConstVal::U32(v) => (v.to_string(), "u32"),
        ConstVal::I64(v) | ConstVal::AbstractInt(v) => (v.to_string(), "i64"),
        ConstVal::U64(v) => (v.to_string(), "u64"),
        ConstVal::F32(b) => (b.to_string(), "f32"),
        ConstVal::F64(b) | ConstVal::AbstractFloat(b) => (b.to_string(), "f64"),
        ConstVal::Bool(v) => (v.to_string(), "bool"),
    }
}

pub fn judge_obs(sh: &Shader, text: &str, obs: &Value) -> Result<(), String> {
    for c in &sh.consts {
        match &c.expect {
            Some(e) => {
                let (want, ty) = expect_str(e);
                let got = obs[&c.name].as_str().unwrap_or("<missing>");
                if got != want {
                    return Err(format!(
                        "constant `{}` (`const {}{}`) evaluates to {} {got}, the WGSL value is {want}",
                        c.name,
                        c.name,
                        c.decl,
                        if ty.starts_with('f') { "bits" } else { "value" }
                    ));
                }
            }
            None => {
                if let Ok(o) = outread::read(text) {
                    if o.const_named(&c.name).is_some() {
                        return Err(format!("non-scalar constant `{}` was exported", c.name));
                    }
                }
            }
        }
    }
    Ok(())
}

impl ExecProp for C15 {
    fn id(&self) -> &'static str {
        "C15"
    }
    fn build(&self, choices: &[u32], _stats: &mut Stats) -> Option<Built> {
        let mut ch = Ch::new(choices);
        let sh = build_shader(&mut ch);
        let wgsl = render(&sh);
        Some(Built { sh, wgsl, include_path: None, opts: Opts::default(), extra: Value::Null, files: vec![] })
    }
    fn probe_src(&self, b: &Built) -> String {
        probe_source(&b.sh)
    }
    fn observes_item(&self, kind: &str, name: &str) -> bool {
        kind == "const" && !name.starts_with("ENTRY_") && name != "SOURCE" && name != "_"
    }
    fn judge(&self, b: &Built, text: &str, obs: &Value, _stats: &mut Stats) -> Verdict {
        match judge_obs(&b.sh, text, obs) {
            Ok(()) => Verdict::Ok,
            Err(m) => Verdict::Violation(m),
        }
    }
    fn nontrivial(&self, b: &Built) -> bool {
        b.sh.consts.iter().any(|c| match &c.expect {
            Some(ConstVal::I32(v)) => *v < 0 || c.decl.contains(['+', '*', '(']),
            Some(ConstVal::U32(_)) => c.decl.contains(['+', '*', '(']),
            Some(ConstVal::I64(_)) | Some(ConstVal::U64(_)) | Some(ConstVal::F64(_)) => true,
            Some(ConstVal::F32(b)) => {
                let v = f32::from_bits(*b);
                v == 0.0 && v.is_sign_negative() || (v != 0.0 && v.abs() < f32::MIN_POSITIVE) || v.abs() == f32::MAX || c.decl.contains(['+', '*', '('])
            }
            _ => false,
        })
    }
    fn classes(&self, b: &Built, stats: &mut Stats) {
        for c in &b.sh.consts {
            match &c.expect {
                None => stats.class("non_scalar_constant"),
                Some(e) => {
                    stats.class(&format!("const_{}", expect_str(e).1));
                    stats.class_if(c.decl.starts_with(" ="), "inferred_type");
                    stats.class_if(c.decl.contains(['+', '*']) || c.decl.contains("-("), "folded_expression");
                }
            }
        }
    }
}

pub fn eval_replay(sut: &dyn Sut, v: &Value) -> Result<(), String> {
    eval_replay_exec(&C15, sut, v)
}

pub fn run(sut: &dyn Sut, tier: Tier) -> ! {
    preflight::quiet_panics();
    let mut run = Run::new("C15", tier);
    run.rule = "1-10 named constants per shader: explicit i32/u32/f32/f64/i64/u64/bool declarations with edge values (i32::MIN+1, u32::MAX, f32 MAX/MIN_POSITIVE/subnormals/-0.0/non-representable decimals, 64-bit extremes), inferred types, folded integer/float expressions and conversions whose exact result the generator computes itself, references to earlier constants, and non-scalar constants (vector, array, matrix) that must be skipped. The generated module is compiled; each constant is bound to a variable of the expected Rust type (rustc checks the type) and its value / bit pattern is printed and compared exactly. Non-trivial = a constant that is negative, 64-bit, a float edge value, or a folded expression; distinct by (wgsl, options).".to_string();
    let mut stats = Stats::new();
    run.canaries(&mut |v| eval_replay(sut, v));
    let rounds = tier.pick(1, 4);
    let n = tier.pick(800, 1600);
    for r in 0..rounds {
        if run_round(&C15, sut, &mut run, &mut stats, r as u64 + 1, n, (40, 120)) {
            break;
        }
    }
    stats.check_health("C15");
    run.finish(&stats)
}
