//! C01 — the generated module is complete Rust that compiles against wgpu 24.

use crate::chooser::Ch;
use crate::engine::*;
use crate::exec::*;
use crate::expect::{self, CompileOutcome};
use crate::gen::{gen_shader, Profile, TyProfile};
use crate::layout::*;
use crate::model::*;
use crate::outread;
use crate::preflight;
use crate::probe::{Diag, Kind};
use crate::props::c06::REPRS;
use crate::render::render;
use crate::sut::*;
use serde_json::{json, Value};

pub struct C01 {
    pub hazards: bool,
}

pub fn profile() -> Profile {
    let mut p = Profile::base();
    p.host_structs = (0, 3);
    p.members = (1, 4);
    p.ty = TyProfile::full();
    p.ty.bools = true;
    p.ty.attrs = false;
    p.ty.friendly = 3;
    p.groups = (0, 3);
    p.bindings = (1, 4);
    p.funcs = (0, 2);
    p.stmts = (0, 2);
    p.entries = [(0, 2), (0, 2), (0, 2)];
    p.io_structs = true;
    p.vertex_struct_params = (0, 2);
    p.push = 2;
    p.private = 2;
    p.workgroup = 2;
    p.unused_structs = (0, 1);
    p.nonascii = 2;
    p.vin_as_storage = 1;
    p.out_as_storage = 2;
    p.keyword_names = 3;
    p.overrides = 3;
    p.wg_override = 4;
    p.ov_sized_array = 3;
    p.struct_helpers = 3;
    p.ty.len_edges = 1;
    p
}

pub fn build_full(ch: &mut Ch) -> Shader {
    let head: Vec<u32> = (0..80).map(|_| ch.raw()).collect();
    let mut h = Ch::new(&head);
    let mut sh = gen_shader(ch, &profile());
    // constants
    if h.chance(5, 8) {
        sh.consts = crate::props::c15::gen_consts(&mut h);
        // avoid name clashes with the WG_ constants etc. (names are disjoint by construction)
    }
    // overrides, used by the entry points
    if h.chance(4, 8) && !sh.entries.is_empty() {
        let mut hh = Ch::new(&head[40..]);
        let (osh, _) = crate::props::c12::build(&mut hh);
        // C12's overrides are used by every entry point; the shared generator's own overrides (which
        // size workgroups and arrays) stay
        let own = sh.overrides.len();
        let mut ids: Vec<u16> = sh.overrides.iter().filter_map(|o| o.id).collect();
        for mut o in osh.overrides {
            if let Some(i) = o.id {
                if ids.contains(&i) {
                    o.id = None;
                } else {
                    ids.push(i);
                }
            }
            sh.overrides.push(o);
        }
        let uses: Vec<Stmt> = sh
            .overrides
            .iter()
            .skip(own)
            .map(|o| {
                Stmt::Raw(match o.ty {
                    Sc::Bool => format!("if ({}) {{ acc = acc + 1.0; }}", o.name),
                    Sc::F32 => format!("acc = acc + {};", o.name),
                    _ => format!("acc = acc + f32({});", o.name),
                })
            })
            .collect();
        for e in sh.entries.iter_mut() {
            if h.flip() {
                e.body.extend(uses.iter().cloned());
            }
        }
    }
    // the three generators draw names independently: make module-scope names unique up to case
    // (a user constant equal to a generated parameter name is known finding K3a)
    let mut used: std::collections::HashSet<String> = std::collections::HashSet::new();
    for n in sh.structs.iter().map(|s| &s.name).chain(sh.globals.iter().map(|g| &g.name)).chain(sh.funcs.iter().map(|f| &f.name)).chain(sh.entries.iter().map(|e| &e.name)) {
        used.insert(n.to_lowercase());
    }
    // a lower-case constant equal to a member name, a parameter name or the snake_case of a struct
    // name is known finding K3d: keep constants distinct from those too
    for sd in &sh.structs {
        for m in &sd.members {
            used.insert(m.name.to_lowercase());
        }
    }
    for e in &sh.entries {
        for p in &e.params {
            let n = match p {
                EParam::Struct { name, .. } | EParam::Builtin { name, .. } | EParam::Loc { name, .. } => name,
            };
            used.insert(n.to_lowercase());
        }
    }
    let mut renames: Vec<(String, String)> = Vec::new();
    for (i, c) in sh.consts.iter_mut().enumerate() {
        if !used.insert(c.name.to_lowercase()) {
            let new = format!("{}_c{i}", c.name);
            renames.push((c.name.clone(), new.clone()));
            used.insert(new.to_lowercase());
            c.name = new;
        }
    }
    // later constants may refer to a renamed one
    for (old, new) in &renames {
        for c in sh.consts.iter_mut() {
            for pat in [format!(" = {old} "), format!(" = {old}")] {
                if c.decl.ends_with(&pat) || c.decl.contains(&format!("{pat}+")) || c.decl.contains(&format!("{pat}*")) {
                    c.decl = c.decl.replacen(old.as_str(), new.as_str(), 1);
                    break;
                }
            }
        }
    }
    for i in 0..sh.overrides.len() {
        if !used.insert(sh.overrides[i].name.to_lowercase()) {
            let new = format!("{}_o{i}", sh.overrides[i].name);
            let old = sh.overrides[i].name.clone();
            used.insert(new.to_lowercase());
            sh.overrides[i].name = new.clone();
            for e in sh.entries.iter_mut() {
                for d in e.wg.iter_mut() {
                    if matches!(d, WgDim::Override(n) if *n == old) {
                        *d = WgDim::Override(new.clone());
                    }
                }
            }
            for (_, ov) in sh.ov_sized.iter_mut() {
                if *ov == old {
                    *ov = new.clone();
                }
            }
            // defaults of later overrides may refer to the renamed one (`old * 0.5`, `old / 2u`)
            for o2 in sh.overrides.iter_mut() {
                if let Some(init) = &mut o2.init {
                    if init.starts_with(&format!("{old} ")) {
                        *init = init.replacen(old.as_str(), new.as_str(), 1);
                    }
                }
            }
            let fix = |t: &mut String| {
                *t = t.replace(&format!("({old})"), &format!("({new})")).replace(&format!("+ {old};"), &format!("+ {new};"));
            };
            for e in sh.entries.iter_mut() {
                for st in e.body.iter_mut() {
                    if let Stmt::Raw(t) = st {
                        fix(t);
                    }
                }
            }
        }
    }
    sh
}

fn layouts_differ(sh: &Shader, si: usize, repr: Repr) -> bool {
    let sd = &sh.structs[si];
    let rl = rust_struct_layout(sd, &sh.structs, repr);
    let wl = wgsl_struct_layout(sd, &sh.structs);
    let woff: Vec<u32> = sd.members.iter().zip(wl.offsets.iter()).filter(|(m, _)| !matches!(m.io, Io::Builtin(_))).map(|(_, o)| *o).collect();
    rl.offsets != woff || rl.size != wl.size
}

impl ExecProp for C01 {
    fn id(&self) -> &'static str {
        "C01"
    }
    fn kind(&self) -> Kind {
        Kind::Real
    }
    fn build(&self, choices: &[u32], stats: &mut Stats) -> Option<Built> {
        let mut ch = Ch::new(choices);
        let head: Vec<u32> = (0..6).map(|_| ch.raw()).collect();
        let mut h = Ch::new(&head);
        let sh = build_full(&mut ch);
        let mut o = Opts::from_bits(h.below(16), *h.pick(&REPRS));
        o.rustfmt = h.chance(1, 8);
        o.validate = *h.pick(&[Validate::Off, Validate::All]);
        if expect::predicted_panic(&sh, &o).is_some() {
            stats.skip("documented_panic_option_set");
            return None;
        }
        if let Some((_, CompileOutcome::Unsupported(why))) = expect::predict_module(&sh, &o).into_iter().find(|(_, c)| matches!(c, CompileOutcome::Unsupported(_))) {
            stats.skip(&format!("external_crate_limit:{why}"));
            return None;
        }
        let wgsl = render(&sh);
        Some(Built { sh, wgsl, include_path: None, opts: o, extra: Value::Null, files: vec![] })
    }
    fn probe_src(&self, _b: &Built) -> String {
        String::new()
    }
    fn observes_item(&self, _kind: &str, _name: &str) -> bool {
        true
    }
    fn judge(&self, _b: &Built, text: &str, _obs: &Value, stats: &mut Stats) -> Verdict {
        // self-contained module: also a syntactically complete file
        if let Err(e) = syn::parse_file(text) {
            return Verdict::Violation(format!("the returned text is not a Rust file: {e}"));
        }
        stats.class("compiled_clean");
        Verdict::Ok
    }
    fn judge_compile_error(&self, b: &Built, text: &str, diags: &[Diag]) -> Verdict {
        let out = outread::read(text).ok();
        let roles = expect::struct_roles(&b.sh, &b.opts);
        for d in diags {
            let mut permitted = false;
            if let Some(out) = &out {
                // the deliberate rejections of the bytemuck derives
                if let Some(s) = out.structs.iter().find(|s| s.lines.0.saturating_sub(3) <= d.line && d.line <= s.lines.1) {
                    if let Some(r) = roles.iter().find(|r| b.sh.structs[r.index].name == s.name) {
                        let padded = rust_struct_layout(&b.sh.structs[r.index], &b.sh.structs, b.opts.repr).has_padding;
                        if r.pod && padded && (d.code == "E0512" || d.rendered.contains("bytemuck") || d.rendered.contains("Pod")) {
                            permitted = true;
                        }
                    }
                }
                if let Some(a) = out.asserts.iter().find(|a| a.lines.0 <= d.line && d.line <= a.lines.1) {
                    for r in &roles {
                        let n = &b.sh.structs[r.index].name;
                        if (a.cond.contains(&format!("<{n}>")) || a.cond.contains(&format!("({n},"))) && r.asserts && layouts_differ(&b.sh, r.index, b.opts.repr) {
                            permitted = true;
                        }
                    }
                }
            }
            if !permitted {
                return Verdict::Violation(format!("the generated module does not compile against wgpu 24 ({}):\n{}", b.opts.short(), d.rendered));
            }
        }
        Verdict::Ok
    }
    fn nontrivial(&self, b: &Built) -> bool {
        !expect::emitted_structs(&b.sh).is_empty() && b.sh.globals.iter().any(|g| g.binding.is_some()) && !b.sh.entries.is_empty()
    }
    fn classes(&self, b: &Built, stats: &mut Stats) {
        let o = &b.opts;
        stats.class(&format!("repr_{:?}", o.repr));
        stats.class(&format!("derives_bv{}_bh{}_en{}_se{}", o.bytemuck_vertex as u8, o.bytemuck_host as u8, o.encase_host as u8, o.serde as u8));
        stats.class_if(o.rustfmt, "rustfmt_on");
        stats.class_if(o.validate != Validate::Off, "validation_on");
        stats.class_if(!b.sh.overrides.is_empty(), "has_overrides");
        stats.class_if(b.sh.entries.iter().any(|e| e.wg.iter().any(|d| matches!(d, WgDim::Override(_)))), "workgroup_size_from_override");
        stats.class_if(!b.sh.ov_sized.is_empty(), "override_sized_workgroup_array");
        stats.class_if(!b.sh.raw_items.is_empty(), "struct_and_pointer_helper_functions");
        stats.class_if(!b.sh.consts.is_empty(), "has_constants");
        stats.class_if(crate::props::layouts::has_push(&b.sh).is_some(), "has_push_constant");
        stats.class_if(b.sh.entries.iter().any(|e| e.stage == Stage::Vertex && !e.params.iter().any(|p| matches!(p, EParam::Struct { .. })) && !b.sh.overrides.is_empty()), "vertex_entry_no_struct_params_with_overrides");
        stats.class_if(expect::predict_module(&b.sh, o).iter().any(|(_, c)| *c != CompileOutcome::Compiles), "permitted_rejection_predicted");
        stats.class_if(!b.wgsl.is_ascii(), "non_ascii_identifiers");
    }
}

/// Raw replay (canaries of identifier hazards): source + options only; nothing is permitted to fail.
pub fn eval_raw(sut: &dyn Sut, wgsl: &str, opts: &Opts) -> Result<(), String> {
    let text = match sut.generate(wgsl, None, opts) {
        Outcome::Ok(t) => t,
        // not accepted: outside C01's statement
        other => return Err(format!("not accepted by the generator: {}", other.brief())).or(Ok(())),
    };
    if let Err(e) = syn::parse_file(&text) {
        return Err(format!("the returned text is not a Rust file: {e}"));
    }
    let ws = crate::probe::Workspace::new("C01iso", Kind::Real, 1);
    let r = ws.run(&[crate::probe::ProbeCase { module_src: text, probe_src: String::new(), files: vec![] }]);
    match &r[0] {
        crate::probe::CaseResult::Ok(_) => Ok(()),
        crate::probe::CaseResult::CompileError(d) => Err(format!("the generated module does not compile against wgpu 24 ({}):\n{}", opts.short(), d.first().map(|d| d.rendered.clone()).unwrap_or_default())),
        other => Err(format!("probe infrastructure: {other:?}")),
    }
}

pub fn eval_replay(sut: &dyn Sut, v: &Value) -> Result<(), String> {
    if v["kind"] == "c01raw" {
        return eval_raw(sut, v["wgsl"].as_str().unwrap_or(""), &crate::worker::opts_from_json(&v["options"]));
    }
    eval_replay_exec(&C01 { hazards: true }, sut, v)
}

pub fn run(sut: &dyn Sut, tier: Tier) -> ! {
    preflight::quiet_panics();
    let mut run = Run::new("C01", tier);
    run.rule = "full-profile generated shaders (host-shareable structs of every type incl. bool/f64/atomics/runtime arrays, resource bindings of every kind at sparse indices, push constant, private/workgroup variables, named constants of every scalar type, overrides, helper functions, 0-2 entry points per stage with struct/builtin parameters and every result shape, non-ASCII identifiers) x all 16 derive switch combinations x Rust/Glam/Nalgebra x rustfmt on (1/8) x validation on/off. The returned text is type-checked by rustc (cargo check) in a crate depending on the real wgpu 24.0.5, bytemuck, encase, glam, serde (+ nalgebra stand-in). The only permitted errors are those the model predicts: bytemuck's Pod padding rejection on a struct that derives Pod and has padding, and a failing generated layout assertion on a host-shareable struct whose Rust layout differs from WGSL; option sets with a documented panic or an external-crate limit (encase f64/bool, Pod bool, serde arrays > 32) are excluded and counted. Non-trivial = >= 1 emitted struct, >= 1 bind group and >= 1 entry point; distinct by (wgsl, options).".to_string();
    run.assumptions = vec![
        "edition 2021; warn-level style lints allowed, deny-by-default lints on".into(),
        "nalgebra is a stand-in crate (absent from the offline cache)".into(),
        "identifier hazards confirmed as known findings (K2, K3) are excluded by construction and reported from their canaries".into(),
    ];
    let mut stats = Stats::new();
    run.canaries(&mut |v| eval_replay(sut, v));
    let rounds = tier.pick(1, 6);
    let n = tier.pick(640, 1600);
    let p = C01 { hazards: false };
    for r in 0..rounds {
        if run_round(&p, sut, &mut run, &mut stats, r as u64 + 1, n, (200, 900)) {
            break;
        }
    }
    stats.check_health("C01");
    run.finish(&stats)
}
