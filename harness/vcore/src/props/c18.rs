//! C18 — output is a pure function of source and options.
//! Reference for a key = output of a fresh child process with a randomised environment. Histories
//! (sequences of calls, error calls, panicking calls, concurrent sub-histories) are executed in one
//! worker process and every result is compared with the reference of its key.

use crate::chooser::{hash_str, Ch};
use crate::engine::*;
use crate::gen::{gen_shader, Profile};
use crate::layout::Repr;
use crate::render::render;
use crate::sut::*;
use crate::worker::*;
use serde_json::{json, Value};
use std::collections::HashMap;
use std::sync::Mutex;

#[derive(Clone, Debug)]
pub struct Key {
    pub wgsl: String,
    pub include_path: Option<String>,
    pub opts: Opts,
}

impl Key {
    fn json(&self) -> Value {
        json!({"wgsl": self.wgsl, "include_path": self.include_path, "opts": opts_to_json(&self.opts)})
    }
    fn hash(&self) -> u64 {
        hash_str(&serde_json::to_string(&self.json()).unwrap())
    }
}

#[derive(Clone, Debug)]
pub enum Op {
    Gen(usize),
    Err,
    Panic,
    Conc(Vec<Vec<Op>>),
    /// make the formatter available (a marking stub on the PATH) or unavailable (empty PATH
    /// directory) for the following calls of this process; top level only
    Fmt(bool),
}

fn op_json(o: &Op) -> Value {
    match o {
        Op::Gen(k) => json!({"op": "gen", "key": k}),
        Op::Err => json!({"op": "err"}),
        Op::Panic => json!({"op": "panic"}),
        Op::Fmt(on) => json!({"op": "fmt", "on": on}),
        Op::Conc(ts) => json!({"op": "conc", "threads": ts.iter().map(|t| t.iter().map(op_json).collect::<Vec<_>>()).collect::<Vec<_>>()}),
    }
}

fn op_from_json(v: &Value) -> Op {
    match v["op"].as_str() {
        Some("gen") => Op::Gen(v["key"].as_u64().unwrap_or(0) as usize),
        Some("err") => Op::Err,
        Some("panic") => Op::Panic,
        Some("fmt") => Op::Fmt(v["on"].as_bool().unwrap_or(false)),
        _ => Op::Conc(v["threads"].as_array().map(|a| a.iter().map(|t| t.as_array().map(|x| x.iter().map(op_from_json).collect()).unwrap_or_default()).collect()).unwrap_or_default()),
    }
}

/// PATH and stub mode for the two formatter states
fn fmt_env(on: bool) -> (String, &'static str) {
    if on {
        (format!("{VERIF_DIR}/stubs/fmt"), "mark")
    } else {
        (format!("{VERIF_DIR}/stubs/empty"), "absent")
    }
}

const ERR_SHADER: &str = "@group(0) @binding(0) var<uniform> a: vec4<f32>;\nfn broken( {";
const PANIC_SHADER: &str = "struct RtOnly { data: array<vec4<f32>>, }\n@group(0) @binding(0) var<storage, read> rt: RtOnly;\n@compute @workgroup_size(1) fn main() { let n = arrayLength(&rt.data); }\n";

fn exec_ops(sut: &dyn Sut, keys: &[Key], ops: &[Op]) -> Vec<Value> {
    let mut out = Vec::new();
    for o in ops {
        match o {
            Op::Gen(k) => {
                let key = &keys[*k % keys.len()];
                let r = sut.generate(&key.wgsl, key.include_path.as_deref(), &key.opts);
                out.push(json!({"op": "gen", "key": k % keys.len(), "outcome": outcome_to_json(&r)}));
            }
            Op::Err => {
                let r = sut.generate(ERR_SHADER, None, &Opts::default());
                out.push(json!({"op": "err", "outcome": outcome_to_json(&r)}));
            }
            Op::Panic => {
                // documented panic: runtime-sized array without encase
                let r = sut.generate(PANIC_SHADER, None, &Opts::default());
                out.push(json!({"op": "panic", "outcome": outcome_to_json(&r)}));
            }
            Op::Fmt(on) => {
                // no other thread of this process is running here (concurrent blocks are joined)
                let (path, mode) = fmt_env(*on);
                unsafe {
                    std::env::set_var("PATH", path);
                    std::env::set_var("VERIF_FMT_MODE", mode);
                }
                out.push(json!({"op": "fmt", "on": on}));
            }
            Op::Conc(threads) => {
                let results: Vec<Vec<Value>> = std::thread::scope(|s| {
                    let hs: Vec<_> = threads
                        .iter()
                        .map(|t| std::thread::Builder::new().stack_size(64 << 20).spawn_scoped(s, move || exec_ops(sut, keys, t)).unwrap())
                        .collect();
                    hs.into_iter().map(|h| h.join().unwrap_or_default()).collect()
                });
                out.push(json!({"op": "conc", "threads": results}));
            }
        }
    }
    out
}

pub fn worker_history(sut: &dyn Sut, req: &Value) -> ! {
    let keys: Vec<Key> = req["keys"]
        .as_array()
        .unwrap()
        .iter()
        .map(|k| Key { wgsl: k["wgsl"].as_str().unwrap().to_string(), include_path: k["include_path"].as_str().map(|s| s.to_string()), opts: opts_from_json(&k["opts"]) })
        .collect();
    let ops: Vec<Op> = req["ops"].as_array().unwrap().iter().map(op_from_json).collect();
    let res = std::thread::scope(|s| std::thread::Builder::new().stack_size(256 << 20).spawn_scoped(s, || exec_ops(sut, &keys, &ops)).unwrap().join().unwrap());
    println!("{}", serde_json::to_string(&json!({"results": res})).unwrap());
    std::process::exit(0)
}

// ---------------------------------------------------------------------------------------------

pub struct Case {
    pub keys: Vec<Key>,
    pub ops: Vec<Op>,
    pub env_seed: u32,
}

fn gen_opts(ch: &mut Ch) -> Opts {
    // only combinations that do not hit documented panics matter less here: a panic is also an
    // outcome that must be reproducible
    let mut o = Opts::from_bits(ch.below(16), *ch.pick(&[Repr::Rust, Repr::Glam, Repr::Nalgebra]));
    // several capability sets: a call must not be influenced by the capabilities of earlier calls
    o.validate = match ch.below(5) {
        0 => Validate::Off,
        1 => Validate::All,
        2 => Validate::Default,
        3 => Validate::Bits(naga::valid::Capabilities::all().bits() & !(1 << ch.below(24))),
        _ => Validate::Bits(ch.raw()),
    };
    // with the formatter option on, the text depends on whether a formatter can be spawned at the
    // time of the call -- and on nothing else (no memory of earlier spawn attempts)
    o.rustfmt = ch.chance(3, 8);
    o
}

fn gen_ops(ch: &mut Ch, nkeys: usize, depth: usize, max: usize) -> Vec<Op> {
    let n = ch.usize_range(1, max);
    (0..n)
        .map(|_| match ch.below(10) {
            0 => Op::Err,
            1 => Op::Panic,
            4 if depth == 0 => Op::Fmt(ch.flip()),
            2 | 3 if depth == 0 => {
                let nt = ch.usize_range(2, 5);
                Op::Conc((0..nt).map(|_| gen_ops(ch, nkeys, 1, 3)).collect())
            }
            _ => Op::Gen(ch.idx(nkeys)),
        })
        .collect()
}

pub fn build_case(ch: &mut Ch) -> Case {
    let head: Vec<u32> = (0..120).map(|_| ch.raw()).collect();
    let mut h = Ch::new(&head);
    let nkeys = h.usize_range(1, 4);
    let ops = gen_ops(&mut h, nkeys, 0, 8);
    let env_seed = h.raw();
    let mut keys = Vec::new();
    for _ in 0..nkeys {
        let mut p = Profile::base();
        p.overrides = 3;
        p.wg_override = 4;
        p.ov_sized_array = 3;
        p.struct_helpers = 2;
        p.host_structs = (1, 5);
        p.groups = (1, 3);
        p.unused_structs = (0, 2);
        let opts = gen_opts(&mut h);
        let inc = if h.chance(3, 8) { Some((*h.pick(&["shaders/a b.wgsl", "./shaders/a b.wgsl", "shaders/../shaders/a b.wgsl", "missing/x.wgsl"])).to_string()) } else { None };
        let sh = gen_shader(ch, &p);
        let mut wgsl = render(&sh);
        // two push constant variables, each used by its own entry point, are legal WGSL
        if crate::props::layouts::has_push(&sh).is_none() && h.chance(1, 3) {
            wgsl.push_str("struct PcCamera { view: mat4x4<f32>, }\nvar<push_constant> pc_camera: PcCamera;\nvar<push_constant> pc_tint: vec4<f32>;\n@vertex fn vs_two_pc() -> @builtin(position) vec4<f32> { return pc_camera.view[0]; }\n@fragment fn fs_two_pc() -> @location(0) vec4<f32> { return pc_tint; }\n");
        }
        // one key in five is a call graph (up to 300 helpers, deep chains, diamonds) from the C20
        // generator: traversal order effects need depth; its choices are expanded from one draw
        if h.chance(1, 5) {
            let seed = h.raw() as u64;
            let sub: Vec<u32> = (0..4000u64).map(|i| (crate::chooser::mix(seed, i) >> 32) as u32).collect();
            wgsl = crate::props::c20::random_dag(&mut Ch::new(&sub)).wgsl;
        }
        keys.push(Key { wgsl, include_path: inc, opts });
    }
    Case { keys, ops, env_seed }
}

fn random_env(seed: u32, slot: u32) -> (Vec<(String, String)>, std::path::PathBuf) {
    let m = crate::chooser::mix(seed as u64, slot as u64);
    // working directories: in one of them the relative include path of the keys resolves to an
    // existing file, in the others it does not
    let with = format!("{VERIF_DIR}/work/c18/cwd_with");
    let without = format!("{VERIF_DIR}/work/c18/cwd_without");
    let _ = std::fs::create_dir_all(format!("{with}/shaders"));
    let _ = std::fs::create_dir_all(&without);
    let _ = std::fs::write(format!("{with}/shaders/a b.wgsl"), "// exists\n");
    let dirs = ["/", with.as_str(), "/tmp", without.as_str(), "/usr", with.as_str()];
    let cwd = std::path::PathBuf::from(dirs[(m % dirs.len() as u64) as usize]);
    let langs = ["C", "en_US.UTF-8", "tr_TR.UTF-8", "ja_JP.eucJP", ""];
    let mut env = vec![
        ("PATH".to_string(), "/usr/bin:/bin".to_string()),
        ("HOME".to_string(), format!("/nonexistent/home{}", m >> 7 & 0xff)),
        ("TMPDIR".to_string(), format!("/tmp/t{}", m >> 15 & 0xff)),
        ("LANG".to_string(), langs[((m >> 23) % langs.len() as u64) as usize].to_string()),
        ("RUST_BACKTRACE".to_string(), ((m >> 31) & 1).to_string()),
        ("RUST_LOG".to_string(), ["", "trace", "naga=debug"][((m >> 33) % 3) as usize].to_string()),
        ("NO_COLOR".to_string(), ((m >> 36) & 1).to_string()),
    ];
    // a variable of random length shifts the process's initial stack/ASLR layout
    env.push((format!("PAD_{}", m >> 40 & 0xf), "x".repeat(((m >> 44) & 0x3ff) as usize)));
    // the generator is meant to run in build scripts: the variables cargo sets for them (each one
    // present or absent, with the usual values) must not influence the text either
    let m2 = crate::chooser::mix(m, 0x6275696c64);
    let pick = |k: u32, vals: &[&str]| -> Option<String> {
        let r = (m2 >> (k * 3)) & 7;
        if r as usize >= vals.len() {
            None
        } else {
            Some(vals[r as usize].to_string())
        }
    };
    for (k, (name, vals)) in [
        ("PROFILE", &["debug", "release"][..]),
        ("DEBUG", &["true", "false"][..]),
        ("OPT_LEVEL", &["0", "3", "s"][..]),
        ("TARGET", &["x86_64-unknown-linux-gnu", "wasm32-unknown-unknown", "aarch64-apple-darwin"][..]),
        ("HOST", &["x86_64-unknown-linux-gnu"][..]),
        ("OUT_DIR", &["/tmp/out", "/nonexistent/target/debug/build/x-1/out"][..]),
        ("CARGO_MANIFEST_DIR", &["/", "/nonexistent/crate"][..]),
        ("CARGO_PKG_NAME", &["app", "shaders"][..]),
        ("CARGO_CFG_TARGET_ARCH", &["x86_64", "wasm32"][..]),
        ("CARGO_CFG_DEBUG_ASSERTIONS", &[""][..]),
        ("NUM_JOBS", &["1", "16"][..]),
        ("RUSTFMT", &["/nonexistent/rustfmt"][..]),
        ("RUSTC", &["rustc"][..]),
        ("CI", &["true", "1"][..]),
        ("TERM", &["dumb", "xterm-256color"][..]),
        ("SOURCE_DATE_EPOCH", &["0", "1700000000"][..]),
        ("WGPU_BACKEND", &["vulkan", "gl"][..]),
    ]
    .iter()
    .enumerate()
    {
        if let Some(v) = pick(k as u32, vals) {
            env.push((name.to_string(), v));
        }
    }
    (env, cwd)
}

struct RefCache {
    map: Mutex<HashMap<u64, WOutcome>>,
}

fn child_gen(key: &Key, seed: u32, slot: u32, fmt_on: bool) -> Result<WOutcome, String> {
    let (mut env, cwd) = random_env(seed, slot);
    if key.opts.rustfmt {
        let (path, mode) = fmt_env(fmt_on);
        env.retain(|(k, _)| k != "PATH");
        env.push(("PATH".to_string(), path));
        env.push(("VERIF_FMT_MODE".to_string(), mode.to_string()));
    }
    let req = key.json();
    let r = run_child(&ChildSpec { cmd: "gen", request: &req, env_clear: true, env, cwd: Some(&cwd), cpu_limit_s: 60, wall_limit_s: 120.0 });
    if r.stderr.contains("stub formatter diagnostic") {
        return Ok(WOutcome::Panic("the formatter's diagnostics were written to the caller's stderr".into()));
    }
    match r.response.as_ref().and_then(|v| woutcome_from_json(&v["outcome"])) {
        Some(o) => Ok(o),
        None => Err(format!("worker child produced no result (exit {:?} signal {:?}) stderr: {}", r.exit_code, r.signal, r.stderr)),
    }
}

fn count_shape(text: &str) -> (usize, usize) {
    let structs = text.matches("pub struct ").count();
    let groups = text.matches("pub struct BindGroupLayout").count();
    (structs, groups)
}

fn judge(c: &Case, cache: &RefCache, stats: &mut Stats) -> Result<(), String> {
    // references: per key, for the formatter-absent and the formatter-present state (they are the
    // same reference for keys with the formatter option off)
    let mut refs: Vec<WOutcome> = Vec::new();
    let mut refs_on: Vec<WOutcome> = Vec::new();
    let uses_fmt_on = c.ops.iter().any(|o| matches!(o, Op::Fmt(true)));
    for (state, out) in [(false, &mut refs), (true, &mut refs_on)] {
    for (i, k) in c.keys.iter().enumerate() {
        if state && !(k.opts.rustfmt && uses_fmt_on) {
            // not needed (never compared) or identical by construction
            out.push(WOutcome::Panic("unused reference".into()));
            continue;
        }
        let h = k.hash() ^ (state as u64).wrapping_mul(0x9E37_79B9_7F4A_7C15);
        let cached = cache.map.lock().unwrap().get(&h).cloned();
        let r = match cached {
            Some(r) => r,
            None => {
                let r = match child_gen(k, c.env_seed, i as u32, state) {
                    Ok(r) => r,
                    Err(e) => {
                        eprintln!("C18 infrastructure: {e}");
                        std::process::exit(2);
                    }
                };
                // a second fresh process with another environment must agree (process boundary)
                let r2 = match child_gen(k, c.env_seed ^ 0x5bd1e995, i as u32 + 100, state) {
                    Ok(r) => r,
                    Err(e) => {
                        eprintln!("C18 infrastructure: {e}");
                        std::process::exit(2);
                    }
                };
                stats.class("process_pairs_compared");
                if r != r2 {
                    return Err(format!(
                        "two fresh processes with different environments returned different results for the same key\nfirst: {}\nsecond: {}\n{}",
                        r.brief(),
                        r2.brief(),
                        diff_hint(&r, &r2)
                    ));
                }
                cache.map.lock().unwrap().insert(h, r.clone());
                r
            }
        };
        out.push(r);
    }
    }
    for (i, k) in c.keys.iter().enumerate() {
        if !k.opts.rustfmt {
            refs_on[i] = refs[i].clone();
        }
    }
    // history in one process
    let req = json!({"keys": c.keys.iter().map(|k| k.json()).collect::<Vec<_>>(), "ops": c.ops.iter().map(op_json).collect::<Vec<_>>()});
    let (mut env, cwd) = random_env(c.env_seed, 999);
    // the history starts in the formatter-absent state
    let (path, mode) = fmt_env(false);
    env.retain(|(k, _)| k != "PATH");
    env.push(("PATH".to_string(), path));
    env.push(("VERIF_FMT_MODE".to_string(), mode.to_string()));
    let r = run_child(&ChildSpec { cmd: "history", request: &req, env_clear: true, env, cwd: Some(&cwd), cpu_limit_s: 120, wall_limit_s: 300.0 });
    if r.stderr.contains("stub formatter diagnostic") {
        return Err("a call wrote the formatter's diagnostics to the caller's stderr: calls must not modify any state other than spawning the formatter".to_string());
    }
    let Some(resp) = r.response else {
        eprintln!("C18 infrastructure: history worker produced no result (exit {:?} signal {:?}) {}", r.exit_code, r.signal, r.stderr);
        std::process::exit(2);
    };
    stats.evaluations += 1;
    let mut seen_since: Vec<bool> = vec![false; c.keys.len()]; // key generated before
    let mut intervening: Vec<bool> = vec![false; c.keys.len()];
    let mut nontrivial = false;
    fn walk(
        results: &[Value],
        refs_off: &[WOutcome],
        refs_on: &[WOutcome],
        fmt_on: &mut bool,
        toggled: &mut bool,
        conc_threads: usize,
        seen: &mut Vec<bool>,
        interv: &mut Vec<bool>,
        nontrivial: &mut bool,
        stats: &mut Stats,
    ) -> Result<(), String> {
        for r in results {
            match r["op"].as_str() {
                Some("gen") => {
                    let k = r["key"].as_u64().unwrap() as usize;
                    let got = woutcome_from_json(&r["outcome"]).ok_or("bad outcome json")?;
                    stats.class("gen_compared");
                    let refs = if *fmt_on { refs_on } else { refs_off };
                    if *toggled && matches!(&refs_on[k], WOutcome::Ok(_)) && refs_on[k] != refs_off[k] {
                        stats.class("formatter_key_after_toggle");
                        *nontrivial = true;
                    }
                    if let WOutcome::Ok(t) = &refs[k] {
                        let (s, g) = count_shape(t);
                        let rich = s >= 3 && g >= 2;
                        if rich && ((seen[k] && interv[k]) || conc_threads >= 3) {
                            *nontrivial = true;
                        }
                    }
                    if got != refs[k] {
                        return Err(format!(
                            "key {k}: result inside a history differs from the fresh-process reference (formatter available: {}, concurrent threads: {conc_threads}, generated before: {}, other calls in between: {})\nreference: {}\nhistory: {}\n{}",
                            *fmt_on,
                            seen[k],
                            interv[k],
                            refs[k].brief(),
                            got.brief(),
                            diff_hint(&refs[k], &got)
                        ));
                    }
                    for (i, x) in interv.iter_mut().enumerate() {
                        if i != k {
                            *x = true;
                        }
                    }
                    seen[k] = true;
                    interv[k] = false;
                }
                Some("err") | Some("panic") => {
                    stats.class(if r["op"] == "err" { "err_op" } else { "panic_op" });
                    let got = woutcome_from_json(&r["outcome"]).ok_or("bad outcome json")?;
                    match (r["op"].as_str().unwrap(), &got) {
                        ("err", WOutcome::Err(..)) | ("panic", WOutcome::Panic(_)) | ("panic", WOutcome::Err(..)) | ("panic", WOutcome::Ok(_)) => {}
                        (o, g) => return Err(format!("{o} operation returned {}", g.brief())),
                    }
                    for x in interv.iter_mut() {
                        *x = true;
                    }
                }
                Some("fmt") => {
                    stats.class("formatter_toggle");
                    *fmt_on = r["on"].as_bool().unwrap_or(false);
                    *toggled = true;
                }
                Some("conc") => {
                    let ts = r["threads"].as_array().ok_or("bad conc")?;
                    stats.class("concurrent_block");
                    for t in ts {
                        let mut s2 = seen.clone();
                        let mut i2 = interv.clone();
                        let (mut f2, mut t2) = (*fmt_on, *toggled);
                        walk(t.as_array().ok_or("bad thread")?, refs_off, refs_on, &mut f2, &mut t2, ts.len(), &mut s2, &mut i2, nontrivial, stats)?;
                    }
                    for x in interv.iter_mut() {
                        *x = true;
                    }
                }
                _ => return Err("bad result json".into()),
            }
        }
        Ok(())
    }
    let res = resp["results"].as_array().cloned().unwrap_or_default();
    let (mut fmt_on, mut toggled) = (false, false);
    walk(&res, &refs, &refs_on, &mut fmt_on, &mut toggled, 1, &mut seen_since, &mut intervening, &mut nontrivial, stats)?;
    if nontrivial {
        stats.nontrivial_case(hash_str(&serde_json::to_string(&req).unwrap()));
    }
    stats.sample(|| json!({"ops": c.ops.iter().map(op_json).collect::<Vec<_>>(), "keys": c.keys.iter().map(|k| json!({"opts": k.opts.short(), "include_path": k.include_path, "wgsl_bytes": k.wgsl.len()})).collect::<Vec<_>>(), "first_key_wgsl": c.keys[0].wgsl}));
    Ok(())
}

fn diff_hint(a: &WOutcome, b: &WOutcome) -> String {
    if let (WOutcome::Ok(x), WOutcome::Ok(y)) = (a, b) {
        for (i, (la, lb)) in x.lines().zip(y.lines()).enumerate() {
            if la != lb {
                return format!("first differing line {}:\n  {}\n  {}", i + 1, la, lb);
            }
        }
        return format!("texts differ in length: {} vs {} lines", x.lines().count(), y.lines().count());
    }
    String::new()
}

fn case_json(c: &Case, choices: &[u32]) -> Value {
    json!({"kind": "c18", "keys": c.keys.iter().map(|k| k.json()).collect::<Vec<_>>(), "ops": c.ops.iter().map(op_json).collect::<Vec<_>>(), "env_seed": c.env_seed, "choices": choices})
}

pub fn eval_replay(_sut: &dyn Sut, v: &Value) -> Result<(), String> {
    let keys: Vec<Key> = v["keys"]
        .as_array()
        .ok_or("no keys")?
        .iter()
        .map(|k| Key { wgsl: k["wgsl"].as_str().unwrap_or("").to_string(), include_path: k["include_path"].as_str().map(|s| s.to_string()), opts: opts_from_json(&k["opts"]) })
        .collect();
    let ops: Vec<Op> = v["ops"].as_array().ok_or("no ops")?.iter().map(op_from_json).collect();
    let c = Case { keys, ops, env_seed: v["env_seed"].as_u64().unwrap_or(1) as u32 };
    let cache = RefCache { map: Mutex::new(HashMap::new()) };
    let mut st = Stats::new();
    // purity violations may be probabilistic (hash seeds): repeat
    for _ in 0..5 {
        judge(&c, &cache, &mut st)?;
        cache.map.lock().unwrap().clear();
    }
    Ok(())
}

pub fn run(_sut: &dyn Sut, tier: Tier) -> ! {
    crate::preflight::quiet_panics();
    let mut run = Run::new("C18", tier);
    run.rule = "a history is a proptest-generated list of up to 8 operations over 1-4 keys (generated shader x include path x options): Gen(key), a failing call (parse error), a panicking call (documented runtime-array panic, caught), or a concurrent block of 2-5 threads each running a sub-history; it is executed in one worker process and every Gen result is compared byte for byte with the key's reference, which is produced by two fresh child processes with different randomised environments (cwd, HOME, TMPDIR, LANG, RUST_*, env size) that must also agree. Non-trivial = a key whose output has >= 3 structs and >= 2 bind groups that is regenerated after an intervening call, or generated inside a concurrent block of >= 3 threads; distinct by request.".to_string();
    run.assumptions = vec![
        "thread interleavings are not controlled (no synchronisation points to own): concurrency is stress-level evidence".into(),
        "keys with the formatter option on are compared per formatter state (a marking stub formatter on the PATH / an empty PATH directory), which the history switches between calls; what a formatter failure does to the text is C19".into(),
        "std's per-process and per-HashSet random hash seeds differ between every process and every call".into(),
    ];
    run.canaries(&mut |v| eval_replay(_sut, v));
    let n = tier.pick(600, 6000);
    let (_r, mut sampled) = sample(run.seed_for(1), n, (200, 900));
    let cases: Vec<Case> = sampled.trees.iter().map(|t| build_case(&mut Ch::new(&t.current()))).collect();
    let cache = RefCache { map: Mutex::new(HashMap::new()) };
    let nthreads = 12;
    let results: Vec<(usize, Result<(), String>, Stats)> = std::thread::scope(|s| {
        let hs: Vec<_> = (0..nthreads)
            .map(|k| {
                let cases = &cases;
                let cache = &cache;
                s.spawn(move || {
                    let mut out = Vec::new();
                    for i in (0..cases.len()).filter(|i| i % nthreads == k) {
                        let mut st = Stats::new();
                        let r = judge(&cases[i], cache, &mut st);
                        out.push((i, r, st));
                    }
                    out
                })
            })
            .collect();
        let mut all: Vec<_> = hs.into_iter().flat_map(|h| h.join().unwrap()).collect();
        all.sort_by_key(|x| x.0);
        all
    });
    let mut stats = Stats::new();
    let mut first_fail = None;
    for (i, r, st) in results {
        stats.evaluations += st.evaluations;
        for h in st.nontrivial {
            stats.nontrivial.insert(h);
        }
        for (k, v) in st.classes {
            *stats.classes.entry(k).or_insert(0) += v;
        }
        for s in st.samples {
            if stats.samples.len() < 3 {
                stats.samples.push(s);
            }
        }
        if let Err(m) = r {
            if first_fail.is_none() {
                first_fail = Some((i, m));
            }
        }
    }
    stats.extra.insert("distinct_keys".into(), json!(cache.map.lock().unwrap().len()));
    if let Some((i, m)) = first_fail {
        let mut scratch = Stats::new();
        let c2 = RefCache { map: Mutex::new(HashMap::new()) };
        let best = shrink_tree(&mut *sampled.trees[i], 40, &mut |c| {
            c2.map.lock().unwrap().clear();
            judge(&build_case(&mut Ch::new(c)), &c2, &mut scratch).is_err()
        });
        let c = build_case(&mut Ch::new(&best));
        run.violation(case_json(&c, &best), &m);
    }
    run.finish(&stats)
}
