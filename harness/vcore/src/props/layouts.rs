//! Shared probe for C02 / C03 / C13: execute get_bind_group_layout of every group and
//! create_pipeline_layout on the fake device and read PUSH_CONSTANT_STAGES.

use crate::expect;
use crate::model::*;
use serde_json::Value;
use std::collections::BTreeMap;
use std::fmt::Write;
use wgpu_types as wgt;

pub fn has_push(sh: &Shader) -> Option<usize> {
    sh.globals.iter().position(|g| matches!(g.kind, GKind::Buf { space: Space::Push, .. }))
}

pub fn probe_source(sh: &Shader) -> String {
    let groups = expect::groups(sh);
    let mut s = String::new();
    s.push_str("use super::*;\nuse wgpu::verif_shim as vs;\nuse serde_json::json;\n");
    s.push_str("pub fn probe() -> serde_json::Value {\n    vs::reset();\n    let device = vs::device();\n    let mut out = serde_json::Map::new();\n    let mut groups = serde_json::Map::new();\n");
    for n in groups.keys() {
        writeln!(s, "    {{ let _ = vs::take_log(); let _l = CASEMOD::bind_groups::BindGroup{n}::get_bind_group_layout(&device); groups.insert(\"{n}\".into(), vs::take_log().into()); }}").unwrap();
    }
    s.push_str("    out.insert(\"groups\".into(), groups.into());\n");
    s.push_str("    { let _ = vs::take_log(); let _pl = CASEMOD::create_pipeline_layout(&device); out.insert(\"pipeline_layout\".into(), vs::take_log().into()); }\n");
    if has_push(sh).is_some() {
        s.push_str("    { let st: wgpu::ShaderStages = CASEMOD::PUSH_CONSTANT_STAGES; out.insert(\"push_constant_stages\".into(), json!(st.bits())); }\n");
    }
    s.push_str("    out.into()\n}\n");
    s
}

pub struct LayoutObs {
    pub groups: BTreeMap<u32, Vec<wgt::BindGroupLayoutEntry>>,
    /// entries of each layout of the pipeline layout, in order
    pub pipeline: Vec<Vec<wgt::BindGroupLayoutEntry>>,
    /// (stage bits, start, end)
    pub push_ranges: Vec<(u32, u32, u32)>,
    pub push_constant_stages: Option<u32>,
}

fn entries_of(ev: &Value) -> Result<Vec<wgt::BindGroupLayoutEntry>, String> {
    let mut v = Vec::new();
    for e in ev["entries"].as_array().ok_or("no entries")? {
        v.push(serde_json::from_value::<wgt::BindGroupLayoutEntry>(e.clone()).map_err(|x| format!("cannot decode recorded layout entry {e}: {x}"))?);
    }
    Ok(v)
}

pub fn parse(obs: &Value) -> Result<LayoutObs, String> {
    let mut groups = BTreeMap::new();
    if let Some(m) = obs["groups"].as_object() {
        for (k, log) in m {
            let evs = log.as_array().ok_or("bad group log")?;
            if evs.len() != 1 || evs[0]["ev"] != "create_bind_group_layout" {
                return Err(format!("get_bind_group_layout of group {k} made {} device calls", evs.len()));
            }
            groups.insert(k.parse::<u32>().map_err(|_| "bad group key")?, entries_of(&evs[0])?);
        }
    }
    let evs = obs["pipeline_layout"].as_array().ok_or("no pipeline layout log")?;
    let pls: Vec<&Value> = evs.iter().filter(|e| e["ev"] == "create_pipeline_layout").collect();
    if pls.len() != 1 {
        return Err(format!("create_pipeline_layout made {} create_pipeline_layout calls", pls.len()));
    }
    let mut pipeline = Vec::new();
    for id in pls[0]["bind_group_layouts"].as_array().ok_or("no bgl list")? {
        let l = evs.iter().find(|e| e["ev"] == "create_bind_group_layout" && e["id"] == *id).ok_or("pipeline layout references an unknown bind group layout")?;
        pipeline.push(entries_of(l)?);
    }
    let push_ranges = pls[0]["push_constant_ranges"]
        .as_array()
        .map(|a| a.iter().map(|r| (r["stages"].as_u64().unwrap_or(0) as u32, r["start"].as_u64().unwrap_or(0) as u32, r["end"].as_u64().unwrap_or(0) as u32)).collect())
        .unwrap_or_default();
    Ok(LayoutObs { groups, pipeline, push_ranges, push_constant_stages: obs["push_constant_stages"].as_u64().map(|x| x as u32) })
}
