//! C13 — push constant range covers the variable, from offset 0, once.

use crate::chooser::{hash_str, Ch};
use crate::engine::*;
use crate::exec::*;
use crate::expect;
use crate::gen::{gen_shader, Profile, TyProfile};
use crate::layout::*;
use crate::model::*;
use crate::outread;
use crate::preflight;
use crate::props::layouts;
use crate::render::render;
use crate::sut::*;
use serde_json::{json, Value};

pub struct C13;

pub fn profile() -> Profile {
    let mut p = Profile::base();
    p.host_structs = (0, 3);
    p.ty = TyProfile::full();
    p.ty.f64_ = false;
    p.ty.atomic = false;
    p.ty.rt = false;
    p.ty.friendly = 1;
    p.groups = (0, 2);
    p.bindings = (1, 2);
    p.funcs = (0, 6);
    p.stmts = (0, 4);
    p.depth = 3;
    p.entries = [(0, 2), (0, 2), (0, 2)];
    p.io_structs = false;
    p.push = 6;
    p.private = 0;
    p.workgroup = 0;
    p.unused_structs = (0, 0);
    p.keyword_names = 2;
    p.private = 3;
    p.workgroup = 3;
    p.many_funcs = 4;
    p
}

fn build_case(choices: &[u32]) -> Option<(Shader, String, Opts)> {
    let mut ch = Ch::new(choices);
    let sh = gen_shader(&mut ch, &profile());
    let wgsl = render(&sh);
    let opts = expect::plain_opts(&sh)?;
    Some((sh, wgsl, opts))
}

pub struct Expected {
    pub size: u32,
    pub stages: u32,
    pub used: u32,
}

pub fn expected(sh: &Shader) -> Option<Expected> {
    let gi = layouts::has_push(sh)?;
    let GKind::Buf { ty, .. } = &sh.globals[gi].kind else { return None };
    let size = wgsl_layout(ty, &sh.structs).size;
    let used = expect::expected_visibility(sh)[gi];
    let stages = if used != 0 { used } else { sh.stages_present() };
    Some(Expected { size, stages, used })
}

fn nontrivial(sh: &Shader) -> bool {
    let Some(gi) = layouts::has_push(sh) else { return false };
    let GKind::Buf { ty, .. } = &sh.globals[gi].kind else { return false };
    let e = expected(sh).unwrap();
    let mut comps = Vec::new();
    wgsl_component_offsets(ty, &sh.structs, 0, 0, &mut comps);
    let payload: u32 = comps.iter().map(|(_, s)| s.size()).sum();
    let padded = payload != e.size;
    let present = sh.stages_present();
    padded || (e.used != 0 && e.used != present) || (e.used == 0 && present != 7 && present != 0)
}

fn classes(sh: &Shader, stats: &mut Stats) {
    match expected(sh) {
        None => stats.class("no_push_constant"),
        Some(e) => {
            stats.class("push_constant");
            stats.class_if(e.used == 0, "push_unused");
            stats.class_if(e.used != 0 && e.used != sh.stages_present(), "push_used_by_subset_of_stages");
            let gi = layouts::has_push(sh).unwrap();
            if let GKind::Buf { ty, .. } = &sh.globals[gi].kind {
                stats.class(match ty {
                    Ty::S(_) => "push_scalar",
                    Ty::V(..) => "push_vector",
                    Ty::M { .. } => "push_matrix",
                    Ty::A(..) => "push_array",
                    Ty::St(_) => "push_struct",
                    _ => "push_other",
                });
            }
        }
    }
}

/// `ranges`: (stage bits if known, start, end); `constant`: None = absent, Some(None) = present but not understood
pub fn judge_push(sh: &Shader, ranges: &[(Option<u32>, Option<u64>, Option<u64>)], constant: Option<Option<u32>>) -> Result<(), String> {
    match expected(sh) {
        None => {
            if !ranges.is_empty() {
                return Err(format!("the shader has no push constant but the pipeline layout carries {} push constant range(s)", ranges.len()));
            }
            if constant.is_some() {
                return Err("the shader has no push constant but PUSH_CONSTANT_STAGES is exported".into());
            }
            Ok(())
        }
        Some(e) => {
            if ranges.len() != 1 {
                return Err(format!("the shader declares a push constant but the pipeline layout carries {} range(s) (expected exactly one)", ranges.len()));
            }
            let (st, a, b) = ranges[0];
            if let (Some(a), Some(b)) = (a, b) {
                if a != 0 || b != e.size as u64 {
                    return Err(format!("push constant range is {a}..{b}, the WGSL size of the variable's type is {} (expected 0..{})", e.size, e.size));
                }
                if b % 4 != 0 {
                    return Err(format!("push constant range end {b} is not a multiple of 4"));
                }
            }
            let Some(c) = constant else { return Err("the shader declares a push constant but PUSH_CONSTANT_STAGES is not exported".into()) };
            if let Some(c) = c {
                if c != e.stages {
                    return Err(format!(
                        "PUSH_CONSTANT_STAGES is {c:#05b}; expected {:#05b} ({})",
                        e.stages,
                        if e.used != 0 { "the stages using the variable" } else { "all stages that have an entry point, because nothing uses it" }
                    ));
                }
                if let Some(st) = st {
                    if st != c {
                        return Err(format!("the range's stage set {st:#05b} differs from PUSH_CONSTANT_STAGES {c:#05b}"));
                    }
                }
            }
            Ok(())
        }
    }
}

pub fn judge_wide(sut: &dyn Sut, choices: &[u32], stats: &mut Stats) -> Result<(), String> {
    let Some((sh, wgsl, opts)) = build_case(choices) else {
        stats.excluded_known += 1;
        return Ok(());
    };
    if preflight::preflight(&wgsl).is_err() {
        stats.generator_invalid += 1;
        return Ok(());
    }
    let text = match sut.generate(&wgsl, None, &opts) {
        Outcome::Ok(t) => t,
        Outcome::Panic(m) => {
            stats.sut_panic += 1;
            stats.class(&format!("sut_panic:{}", m.chars().take(40).collect::<String>()));
            return Ok(());
        }
        Outcome::Err(e) => {
            stats.skip(&format!("sut_err_{:?}", e.kind));
            return Ok(());
        }
    };
    stats.evaluations += 1;
    classes(&sh, stats);
    if nontrivial(&sh) {
        stats.nontrivial_case(hash_str(&wgsl));
    }
    let out = outread::read(&text)?;
    let constant = out.const_named("PUSH_CONSTANT_STAGES").map(|c| outread::stage_bits(&c.expr, &|_| None));
    let Some(pr) = &out.push_ranges else {
        stats.class("reader_deferred_to_exec");
        return Ok(());
    };
    let ranges: Vec<(Option<u32>, Option<u64>, Option<u64>)> = pr
        .iter()
        .map(|(st, a, b)| {
            let bits = syn::parse_str::<syn::Expr>(st).ok().and_then(|e| outread::stage_bits(&e, &|n| if n == "PUSH_CONSTANT_STAGES" { constant.flatten() } else { None }));
            (bits, *a, *b)
        })
        .collect();
    stats.sample(|| json!({"wgsl": wgsl, "expected": expected(&sh).map(|e| json!({"range_end": e.size, "stages": e.stages, "used_by": e.used}))}));
    judge_push(&sh, &ranges, constant).map_err(|m| format!("{m}\n--- source ---\n{wgsl}"))
}

impl ExecProp for C13 {
    fn id(&self) -> &'static str {
        "C13"
    }
    fn build(&self, choices: &[u32], _stats: &mut Stats) -> Option<Built> {
        let (sh, wgsl, opts) = build_case(choices)?;
        Some(Built { sh, wgsl, include_path: None, opts, extra: Value::Null, files: vec![] })
    }
    fn probe_src(&self, b: &Built) -> String {
        layouts::probe_source(&b.sh)
    }
    fn observes_item(&self, kind: &str, name: &str) -> bool {
        (kind == "fn" && name == "create_pipeline_layout") || (kind == "const" && name == "PUSH_CONSTANT_STAGES")
    }
    fn judge(&self, b: &Built, text: &str, obs: &Value, _stats: &mut Stats) -> Verdict {
        let lo = match layouts::parse(obs) {
            Ok(l) => l,
            Err(e) => return Verdict::Violation(e),
        };
        let ranges: Vec<(Option<u32>, Option<u64>, Option<u64>)> = lo.push_ranges.iter().map(|(s, a, b)| (Some(*s), Some(*a as u64), Some(*b as u64))).collect();
        // presence of the constant: executed value when the model has a push constant; otherwise
        // its absence is read from the text
        let constant = match lo.push_constant_stages {
            Some(v) => Some(Some(v)),
            None => match outread::read(text) {
                Ok(o) => o.const_named("PUSH_CONSTANT_STAGES").map(|_| None),
                Err(_) => None,
            },
        };
        match judge_push(&b.sh, &ranges, constant) {
            Ok(()) => Verdict::Ok,
            Err(m) => Verdict::Violation(m),
        }
    }
    fn nontrivial(&self, b: &Built) -> bool {
        nontrivial(&b.sh)
    }
    fn classes(&self, b: &Built, stats: &mut Stats) {
        classes(&b.sh, stats);
        stats.class("executed_width");
    }
}

pub fn eval_replay(sut: &dyn Sut, v: &Value) -> Result<(), String> {
    eval_replay_exec(&C13, sut, v)
}

pub fn run(sut: &dyn Sut, tier: Tier) -> ! {
    preflight::quiet_panics();
    let mut run = Run::new("C13", tier);
    run.rule = "generated shaders with (6/8) or without a var<push_constant> of scalar / vector / matrix (all shapes, incl. mat3x3, mat2x3) / array / padded struct type, used directly, through helper chains, by a subset of the stages, or not at all; expected range = 0..WGSL size computed from the spec's layout rules on the generator AST, expected stages = statically-using stages, or all stages that have an entry point when unused. Wide width: PipelineLayoutDescriptor and PUSH_CONSTANT_STAGES read with syn; executed width: descriptor recorded by the fake device and the evaluated constant. Non-trivial = the type has internal or trailing padding, or the used-stage set differs from the entry-stage set, or the variable is unused while the entry stages are a proper non-empty subset of all stages; distinct by wgsl.".to_string();
    let mut stats = Stats::new();
    run.canaries(&mut |v| eval_replay(sut, v));
    let cases = tier.pick(3000, 100000);
    let mut j = |choices: &[u32], st: &mut Stats| judge_wide(sut, choices, st);
    let mut found = run_inprocess(run.seed_for(1), cases, (100, 500), &mut stats, &mut j);
    if found.is_none() && tier == Tier::Thorough {
        // coverage-guided search over the same choice sequences (libFuzzer, oracle in the target)
        found = fuzz_choices(&run, &mut stats, (100, 500), 300, 12, 8_000, &mut j);
    }
    if let Some(f) = found {
        let mut st = Stats::new();
        let body = match C13.build(&f.choices, &mut st) {
            Some(b) => case_json(&b, &f.choices, None),
            None => json!({"choices": f.choices}),
        };
        run.violation(body, &f.message);
        run.finish(&stats);
    }
    let rounds = tier.pick(1, 4);
    let n = tier.pick(240, 1600);
    for r in 0..rounds {
        if run_round(&C13, sut, &mut run, &mut stats, 100 + r as u64, n, (100, 500)) {
            break;
        }
    }
    stats.check_health("C13");
    run.finish(&stats)
}
