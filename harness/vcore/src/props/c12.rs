//! C12 — override constants reach the pipeline under the right key and value.

use crate::chooser::Ch;
use crate::engine::*;
use crate::exec::*;
use crate::model::*;
use crate::preflight;
use crate::render::render;
use crate::sut::*;
use serde_json::{json, Value};
use std::collections::BTreeMap;
use std::fmt::Write;

pub struct C12;

const I32_VALUES: [i32; 7] = [0, 1, -1, i32::MIN, i32::MAX, 65536, -12345];
const U32_VALUES: [u32; 6] = [0, 1, u32::MAX, 2147483648, 16777217, 42];
const F32_VALUES: [f32; 10] = [0.0, -0.0, 1.0, -1.5, f32::MAX, f32::MIN, f32::MIN_POSITIVE, 1.0e-45, 0.1, 16777216.0];

/// value as the f64 the map must carry
fn as_f64(ty: Sc, raw: u32) -> f64 {
    match ty {
        Sc::Bool => {
            if raw & 1 == 1 {
                1.0
            } else {
                0.0
            }
        }
        Sc::I32 => raw as i32 as f64,
        Sc::U32 => raw as f64,
        Sc::F32 => f32::from_bits(raw) as f64,
        _ => unreachable!(),
    }
}

fn rust_lit(ty: Sc, raw: u32) -> String {
    match ty {
        Sc::Bool => (raw & 1 == 1).to_string(),
        Sc::I32 => format!("{}i32", raw as i32),
        Sc::U32 => format!("{raw}u32"),
        Sc::F32 => format!("f32::from_bits({raw}u32)"),
        _ => unreachable!(),
    }
}

fn pick_value(ch: &mut Ch, ty: Sc) -> u32 {
    match ty {
        Sc::Bool => ch.below(2),
        Sc::I32 => {
            if ch.chance(6, 8) {
                *ch.pick(&I32_VALUES) as u32
            } else {
                ch.raw()
            }
        }
        Sc::U32 => {
            if ch.chance(6, 8) {
                *ch.pick(&U32_VALUES)
            } else {
                ch.raw()
            }
        }
        Sc::F32 => {
            if ch.chance(6, 8) {
                ch.pick(&F32_VALUES).to_bits()
            } else {
                // any finite f32
                let b = ch.raw();
                if f32::from_bits(b).is_finite() {
                    b
                } else {
                    1.0f32.to_bits()
                }
            }
        }
        _ => unreachable!(),
    }
}

pub fn build(ch: &mut Ch) -> (Shader, Value) {
    let mut sh = Shader::default();
    let n = ch.usize_range(1, 8);
    let mut used_ids: Vec<u16> = Vec::new();
    for i in 0..n {
        let ty = *ch.pick(&[Sc::Bool, Sc::I32, Sc::U32, Sc::F32]);
        let id = if ch.chance(3, 8) {
            let mut v = *ch.pick(&[0u16, 1, 2, 7, 100, 1000, 65535, 42]);
            while used_ids.contains(&v) {
                v = v.wrapping_add(1);
            }
            used_ids.push(v);
            Some(v)
        } else {
            None
        };
        let kw = ["in", "dyn", "box"];
        let name = match ch.below(5) {
            4 if !sh.overrides.iter().any(|o| kw.contains(&o.name.as_str())) => (*ch.pick(&kw)).to_string(),
            0 => format!("ov_{i}"),
            1 => format!("Scale{i}"),
            2 => format!("größe_{i}"),
            _ => format!("o{i}"),
        };
        let init = if ch.chance(4, 8) {
            // default: literal, or an expression over an earlier override of the same type
            let prev: Vec<&OverrideDef> = sh.overrides.iter().filter(|o| o.ty == ty && ty != Sc::Bool).collect();
            if !prev.is_empty() && ch.chance(2, 8) {
                let p = ch.pick(&prev).name.clone();
                Some(match ty {
                    // expressions that cannot overflow for any supplied value
                    Sc::F32 => format!("{p} * 0.5"),
                    Sc::I32 => format!("{p} / 2i"),
                    _ => format!("{p} / 2u"),
                })
            } else {
                Some(match ty {
                    // unusual but legal spellings of a default: zero-value constructor, conversion
                    _ if ch.chance(1, 5) => format!("{}()", ty.wgsl()),
                    Sc::F32 if ch.chance(1, 6) => format!("f32({})", ch.range(0, 9)),
                    Sc::U32 if ch.chance(1, 6) => format!("u32({}i)", ch.range(0, 9)),
                    Sc::Bool => ch.flip().to_string(),
                    Sc::I32 => format!("{}i", ch.range(0, 1000) as i32 - 500),
                    Sc::U32 => format!("{}u", ch.range(0, 1000)),
                    _ => format!("{}.5", ch.range(0, 100)),
                })
            }
        } else {
            None
        };
        sh.overrides.push(OverrideDef { name, id, ty, init });
    }
    // override types spelled through aliases (`alias Flag = bool; override on: Flag = true;`)
    if ch.chance(3, 8) {
        let mut tys: Vec<Sc> = Vec::new();
        for o in &sh.overrides {
            if !tys.contains(&o.ty) {
                tys.push(o.ty);
            }
        }
        let n = ch.usize_range(1, 2).min(tys.len());
        for k in 0..n {
            let i = ch.idx(tys.len());
            let ty = tys.remove(i);
            let uses = if ch.flip() { u32::MAX } else { ch.raw() | 1 };
            sh.aliases.push(AliasDef { name: format!("TyAlias{k}"), ty: Ty::S(ty), uses });
        }
    }
    // entry points that use every override
    let mut body = Vec::new();
    for o in &sh.overrides {
        body.push(Stmt::Raw(match o.ty {
            Sc::Bool => format!("if ({}) {{ acc = acc + 1.0; }}", o.name),
            Sc::F32 => format!("acc = acc + {};", o.name),
            _ => format!("acc = acc + f32({});", o.name),
        }));
    }
    let stages = ch.range(1, 7);
    if stages & 4 != 0 || stages == 0 {
        // the workgroup size may itself be an override
        let wg = match sh.overrides.iter().find(|o| o.ty == Sc::U32) {
            Some(o) if ch.chance(3, 8) => vec![WgDim::Override(o.name.clone()), WgDim::Lit(1)],
            _ => vec![WgDim::Lit(1)],
        };
        sh.entries.push(Entry { stage: Stage::Compute, name: "cs_main".into(), params: vec![], result: EResult::None, wg, body: body.clone() });
    }
    if stages & 1 != 0 {
        let with_input = ch.flip();
        let mut params = vec![];
        if with_input {
            sh.structs.push(StructDef {
                name: "VertexInput".into(),
                members: vec![Member { name: "position".into(), ty: Ty::V(3, Sc::F32), size_attr: None, align_attr: None, io: Io::Loc { loc: 0, flat: false } }],
            });
            params.push(EParam::Struct { name: "input".into(), st: 0 });
        }
        sh.entries.push(Entry {
            stage: Stage::Vertex,
            name: "vs_main".into(),
            params,
            result: EResult::Builtin { builtin: "position".into(), ty: Ty::V(4, Sc::F32) },
            wg: vec![],
            body: body.clone(),
        });
    }
    if stages & 2 != 0 {
        sh.entries.push(Entry { stage: Stage::Fragment, name: "fs_main".into(), params: vec![], result: EResult::Loc { loc: 0, ty: Ty::V(4, Sc::F32) }, wg: vec![], body });
    }
    // assignments
    let na = 4;
    let mut assigns = Vec::new();
    for k in 0..na {
        let mut a = Vec::new();
        for o in &sh.overrides {
            let set = o.init.is_none() || match k {
                0 => true,
                1 => false,
                _ => ch.flip(),
            };
            if set {
                a.push(json!(pick_value(ch, o.ty)));
            } else {
                a.push(Value::Null);
            }
        }
        assigns.push(Value::Array(a));
    }
    (sh, json!({"assignments": assigns}))
}

pub fn probe_source(sh: &Shader, extra: &Value) -> String {
    let mut s = String::new();
    s.push_str("use super::*;\nuse serde_json::json;\n");
    s.push_str("fn dump(m: &std::collections::HashMap<String, f64>) -> serde_json::Value {\n    let mut k: Vec<&String> = m.keys().collect();\n    k.sort();\n    serde_json::Value::Array(k.iter().map(|k| json!([k, m[*k].to_bits().to_string()])).collect())\n}\n");
    s.push_str("pub fn probe() -> serde_json::Value {\n    let mut out = Vec::new();\n");
    for a in extra["assignments"].as_array().unwrap() {
        s.push_str("    {\n        let oc = CASEMOD::OverrideConstants {\n");
        for (o, v) in sh.overrides.iter().zip(a.as_array().unwrap()) {
            let val = match (o.init.is_some(), v.as_u64()) {
                (false, Some(raw)) => rust_lit(o.ty, raw as u32),
                (true, Some(raw)) => format!("Some({})", rust_lit(o.ty, raw as u32)),
                (true, None) => "None".to_string(),
                (false, None) => unreachable!(),
            };
            writeln!(s, "            {}: {val},", crate::expect::rid(&o.name)).unwrap();
        }
        s.push_str("        };\n        let m: std::collections::HashMap<String, f64> = oc.constants();\n        let mut r = serde_json::Map::new();\n        r.insert(\"map\".into(), dump(&m));\n");
        for e in &sh.entries {
            match e.stage {
                Stage::Vertex => {
                    let n = e.params.iter().filter(|p| matches!(p, EParam::Struct { .. })).count();
                    let mut args: Vec<String> = (0..n).map(|_| "wgpu::VertexStepMode::Vertex".to_string()).collect();
                    args.push("&oc".into());
                    writeln!(s, "        {{ let e = CASEMOD::{}_entry({}); r.insert(\"vertex\".into(), dump(&e.constants)); }}", e.name, args.join(", ")).unwrap();
                }
                Stage::Fragment => {
                    writeln!(s, "        {{ let e = CASEMOD::{}_entry(std::array::from_fn(|_| None), &oc); r.insert(\"fragment\".into(), dump(&e.constants)); }}", e.name).unwrap();
                }
                _ => {}
            }
        }
        s.push_str("        out.push(serde_json::Value::Object(r));\n    }\n");
    }
    s.push_str("    json!(out)\n}\n");
    s
}

fn key_of(o: &OverrideDef) -> String {
    match o.id {
        Some(i) => i.to_string(),
        None => o.name.clone(),
    }
}

pub fn judge_obs(sh: &Shader, wgsl: &str, extra: &Value, obs: &Value) -> Result<(), String> {
    let parsed = preflight::preflight(wgsl).map_err(|e| format!("(harness) {e}"))?;
    let assigns = extra["assignments"].as_array().ok_or("no assignments")?;
    let results = obs.as_array().ok_or("probe output is not a list")?;
    if results.len() != assigns.len() {
        return Err("probe output length mismatch".into());
    }
    for (a, r) in assigns.iter().zip(results.iter()) {
        let mut want: BTreeMap<String, f64> = BTreeMap::new();
        for (o, v) in sh.overrides.iter().zip(a.as_array().unwrap()) {
            if let Some(raw) = v.as_u64() {
                want.insert(key_of(o), as_f64(o.ty, raw as u32));
            }
        }
        let mut got: BTreeMap<String, f64> = BTreeMap::new();
        for kv in r["map"].as_array().ok_or("no map")? {
            got.insert(kv[0].as_str().unwrap_or("").to_string(), f64::from_bits(kv[1].as_str().unwrap_or("0").parse::<u64>().unwrap_or(0)));
        }
        let show = |m: &BTreeMap<String, f64>| m.iter().map(|(k, v)| format!("{k:?}: {v:?}")).collect::<Vec<_>>().join(", ");
        let same = want.len() == got.len() && want.iter().all(|(k, v)| got.get(k).map(|g| g.to_bits() == v.to_bits()).unwrap_or(false));
        if !same {
            return Err(format!("constants() returned {{{}}}, expected {{{}}} (keys: decimal @id else name; required and set optional overrides only; bool as 1/0)", show(&got), show(&want)));
        }
        for st in ["vertex", "fragment"] {
            if !r[st].is_null() && r[st] != r["map"] {
                return Err(format!("the {st} entry helper does not pass the override map through unchanged: {} vs {}", r[st], r["map"]));
            }
        }
        // independent: naga's own override resolution must accept the map and see the supplied values
        let map: std::collections::HashMap<String, f64> = got.iter().map(|(k, v)| (k.clone(), *v)).collect();
        match naga::back::pipeline_constants::process_overrides(&parsed.module, &parsed.info, &map) {
            // where an override is a workgroup size, most supplied values (0, u32::MAX) make the entry
            // point invalid after resolution: a matter of the shader and the chosen value, not of the
            // generated map, so naga's verdict is not used for those shaders
            Err(_) if sh.entries.iter().any(|e| e.wg.iter().any(|d| matches!(d, WgDim::Override(_)))) => {}
            Err(e) => return Err(format!("naga's override resolution rejects the map {{{}}}: {e}", show(&got))),
            Ok((m2, _)) => {
                for (o, v) in sh.overrides.iter().zip(a.as_array().unwrap()) {
                    let Some(raw) = v.as_u64() else { continue };
                    let raw = raw as u32;
                    let Some((_, c)) = m2.constants.iter().find(|(_, c)| c.name.as_deref() == Some(o.name.as_str())) else {
                        return Err(format!("after override resolution there is no constant for `{}`", o.name));
                    };
                    let lit = match &m2.global_expressions[c.init] {
                        naga::Expression::Literal(l) => *l,
                        other => return Err(format!("override `{}` did not resolve to a literal: {other:?}", o.name)),
                    };
                    let ok = match (o.ty, lit) {
                        (Sc::Bool, naga::Literal::Bool(b)) => b == (raw & 1 == 1),
                        (Sc::I32, naga::Literal::I32(x)) => x == raw as i32,
                        (Sc::U32, naga::Literal::U32(x)) => x == raw,
                        (Sc::F32, naga::Literal::F32(x)) => x.to_bits() == raw || (x == 0.0 && f32::from_bits(raw) == 0.0 && x.to_bits() == raw),
                        _ => false,
                    };
                    if !ok {
                        return Err(format!("the shader compiler sees {lit:?} for override `{}` where {} was supplied", o.name, rust_lit(o.ty, raw)));
                    }
                }
            }
        }
    }
    Ok(())
}

impl ExecProp for C12 {
    fn id(&self) -> &'static str {
        "C12"
    }
    fn build(&self, choices: &[u32], _stats: &mut Stats) -> Option<Built> {
        let mut ch = Ch::new(choices);
        let (sh, extra) = build(&mut ch);
        let wgsl = render(&sh);
        Some(Built { sh, wgsl, include_path: None, opts: Opts::default(), extra, files: vec![] })
    }
    fn probe_src(&self, b: &Built) -> String {
        probe_source(&b.sh, &b.extra)
    }
    fn observes_item(&self, kind: &str, name: &str) -> bool {
        (kind == "struct" && name == "OverrideConstants") || (kind == "impl" && name == "OverrideConstants") || (kind == "fn" && name.ends_with("_entry"))
    }
    fn judge(&self, b: &Built, _text: &str, obs: &Value, _stats: &mut Stats) -> Verdict {
        match judge_obs(&b.sh, &b.wgsl, &b.extra, obs) {
            Ok(()) => Verdict::Ok,
            Err(m) => Verdict::Violation(m),
        }
    }
    fn nontrivial(&self, b: &Built) -> bool {
        let o = &b.sh.overrides;
        let unset = b.extra["assignments"].as_array().map(|a| a.iter().any(|x| x.as_array().map(|y| y.iter().any(|v| v.is_null())).unwrap_or(false))).unwrap_or(false);
        o.iter().any(|x| x.id.is_some()) && o.iter().any(|x| x.init.is_none()) && o.iter().any(|x| x.init.is_some()) && unset
    }
    fn classes(&self, b: &Built, stats: &mut Stats) {
        for o in &b.sh.overrides {
            stats.class(&format!("override_{}", o.ty.wgsl()));
            stats.class_if(o.id.is_some(), "with_id");
            stats.class_if(o.init.is_some(), "with_default");
            stats.class_if(o.init.as_ref().map(|i| i.contains(['*', '/'])).unwrap_or(false), "default_depends_on_override");
        }
        for e in &b.sh.entries {
            stats.class(&format!("entry_{:?}", e.stage));
        }
    }
}

pub fn eval_replay(sut: &dyn Sut, v: &Value) -> Result<(), String> {
    eval_replay_exec(&C12, sut, v)
}

pub fn run(sut: &dyn Sut, tier: Tier) -> ! {
    preflight::quiet_panics();
    let mut run = Run::new("C12", tier);
    run.rule = "1-8 overrides per shader (bool/i32/u32/f32, with/without default, with/without @id incl. 0 and 65535, defaults depending on earlier overrides, ASCII and non-ASCII names), every override used by vertex/fragment/compute entry points; per shader 4 assignments of field values (all set; only required set; two random) drawn from extremes (i32::MIN/MAX, u32::MAX, f32 MAX/MIN_POSITIVE/subnormal/+-0.0) and random bit patterns. The probe builds OverrideConstants with an exhaustive, explicitly typed struct literal (rustc checks field set, types, optional-ness), evaluates constants() and the constants of every vertex/fragment entry helper; the map must equal the model's (key = decimal @id else name; present iff required or set; exact f64 bits) and naga's process_overrides must accept it and yield, for every supplied override, a literal of the override's type equal to the supplied value. Non-trivial = >= 1 @id override, >= 1 required and >= 1 optional override, and some optional left unset; distinct by (wgsl, options).".to_string();
    let mut stats = Stats::new();
    run.canaries(&mut |v| eval_replay(sut, v));
    let rounds = tier.pick(1, 4);
    let n = tier.pick(800, 1600);
    for r in 0..rounds {
        if run_round(&C12, sut, &mut run, &mut stats, r as u64 + 1, n, (60, 200)) {
            break;
        }
    }
    stats.check_health("C12");
    run.finish(&stats)
}
