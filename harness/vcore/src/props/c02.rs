//! C02 — bind group layouts pass wgpu's shader-interface validation.

use crate::chooser::Ch;
use crate::engine::*;
use crate::exec::*;
use crate::gen::{gen_shader, Profile, TyProfile, ATOMIC_FORMATS};
use crate::model::*;
use crate::preflight;
use crate::props::layouts;
use crate::render::render;
use crate::sut::*;
use crate::wgpucore;
use serde_json::{json, Value};

pub struct C02(pub Tier);

pub fn profile() -> Profile {
    let mut p = Profile::base();
    p.host_structs = (0, 3);
    p.ty = TyProfile::full();
    p.ty.attrs = false;
    p.groups = (1, 6);
    p.bindings = (1, 6);
    p.w_buf = 3;
    p.w_tex = 4;
    p.w_samp = 2;
    p.w_stex = 3;
    p.funcs = (0, 3);
    p.stmts = (1, 5);
    p.entries = [(0, 2), (0, 2), (0, 2)];
    p.io_structs = false;
    p.use_all_resources = true;
    p.unused_structs = (0, 0);
    p.keyword_names = 2;
    p.many_funcs = 2;
    p
}

/// The complete storage-texture table: 41 formats x {read, write, read_write} x {1d, 2d, 2d_array, 3d}
/// plus atomic access for the three atomic-capable formats.
pub fn storage_table() -> Vec<Tex> {
    let mut v = Vec::new();
    let dims = [(Dim::D1, false), (Dim::D2, false), (Dim::D2, true), (Dim::D3, false)];
    for fmt in 0..STORAGE_FORMATS.len() {
        for (dim, arrayed) in dims {
            for access in [Acc::Read, Acc::Write, Acc::ReadWrite] {
                v.push(Tex::Storage { dim, arrayed, fmt, access });
            }
            if ATOMIC_FORMATS.contains(&STORAGE_FORMATS[fmt].0) {
                v.push(Tex::Storage { dim, arrayed, fmt, access: Acc::Atomic });
            }
        }
    }
    v
}

pub const TABLE_CHUNK: usize = 8;
pub const TABLE_SENTINEL: u32 = 0xC02_7AB1E;

pub fn table_case(k: usize) -> Shader {
    let table = storage_table();
    let mut sh = Shader::default();
    let lo = k * TABLE_CHUNK;
    for (i, t) in table.iter().enumerate().skip(lo).take(TABLE_CHUNK) {
        sh.globals.push(Global { name: format!("st_{i}"), kind: GKind::Tex(*t), binding: Some(((i % 2) as u32, (i - lo) as u32 * 3)) });
    }
    // one entry per stage kind in rotation, using every texture with every access form it supports
    let stage = [Stage::Compute, Stage::Fragment, Stage::Vertex][k % 3];
    let mut body = Vec::new();
    for gi in 0..sh.globals.len() {
        for a in crate::gen::access_options(&sh, gi) {
            body.push(Stmt::Acc(a));
        }
    }
    let (result, wg) = match stage {
        Stage::Compute => (EResult::None, vec![WgDim::Lit(1)]),
        Stage::Fragment => (EResult::Loc { loc: 0, ty: Ty::V(4, Sc::F32) }, vec![]),
        Stage::Vertex => (EResult::Builtin { builtin: "position".into(), ty: Ty::V(4, Sc::F32) }, vec![]),
    };
    sh.entries.push(Entry { stage, name: "main".into(), params: vec![], result, wg, body });
    sh
}

pub fn table_cases() -> usize {
    storage_table().len().div_ceil(TABLE_CHUNK)
}

pub fn judge_layouts(wgsl: &str, obs: &Value) -> Result<(), String> {
    let lo = layouts::parse(obs)?;
    for (g, entries) in &lo.groups {
        wgpucore::bgl_entry_rules(entries).map_err(|e| format!("group {g}: wgpu would reject this bind group layout when it is created: {e}"))?;
    }
    for (k, entries) in lo.pipeline.iter().enumerate() {
        wgpucore::bgl_entry_rules(entries).map_err(|e| format!("pipeline layout slot {k}: wgpu would reject this bind group layout: {e}"))?;
    }
    let parsed = preflight::preflight(wgsl).map_err(|e| format!("(harness) pre-flight failed in judge: {e}"))?;
    let res = wgpucore::check_all_stages(&parsed.module, &parsed.info, &lo.pipeline, &|_| None);
    for r in res {
        if let Err(e) = r.binding_result {
            return Err(format!("wgpu-core's interface validation rejects entry point `{}` ({:?}) against the generated layouts: {e}", r.entry, r.stage));
        }
    }
    Ok(())
}

impl ExecProp for C02 {
    fn id(&self) -> &'static str {
        "C02"
    }
    fn build(&self, choices: &[u32], _stats: &mut Stats) -> Option<Built> {
        let sh = if choices.len() == 2 && choices[0] == TABLE_SENTINEL {
            table_case(choices[1] as usize)
        } else {
            let mut ch = Ch::new(choices);
            gen_shader(&mut ch, &profile())
        };
        let wgsl = render(&sh);
        let opts = crate::expect::plain_opts(&sh)?;
        Some(Built { sh, wgsl, include_path: None, opts, extra: Value::Null, files: vec![] })
    }
    fn probe_src(&self, b: &Built) -> String {
        layouts::probe_source(&b.sh)
    }
    fn observes_item(&self, kind: &str, name: &str) -> bool {
        (kind == "mod" && name == "bind_groups") || (kind == "fn" && name == "create_pipeline_layout")
    }
    fn judge(&self, b: &Built, _text: &str, obs: &Value, _stats: &mut Stats) -> Verdict {
        match judge_layouts(&b.wgsl, obs) {
            Ok(()) => Verdict::Ok,
            Err(m) => Verdict::Violation(m),
        }
    }
    fn nontrivial(&self, b: &Built) -> bool {
        let reach = crate::expect::entry_reach(&b.sh);
        reach.iter().flatten().any(|g| match &b.sh.globals[*g].kind {
            GKind::Tex(_) | GKind::Samp { .. } => true,
            GKind::Buf { space, .. } => matches!(space, Space::StorageR | Space::StorageRW),
        })
    }
    fn classes(&self, b: &Built, stats: &mut Stats) {
        for g in &b.sh.globals {
            if g.binding.is_none() {
                continue;
            }
            match &g.kind {
                GKind::Buf { space, .. } => stats.class(&format!("buf_{space:?}")),
                GKind::Samp { cmp } => stats.class(if *cmp { "sampler_comparison" } else { "sampler" }),
                GKind::Tex(Tex::Sampled { dim, arrayed, sc, multi }) => {
                    stats.class(&format!("tex_{}_{}{}", crate::render::dim_str(*dim, *arrayed), sc.wgsl(), if *multi { "_ms" } else { "" }))
                }
                GKind::Tex(Tex::Depth { dim, arrayed, multi }) => stats.class(&format!("depth_{}{}", crate::render::dim_str(*dim, *arrayed), if *multi { "_ms" } else { "" })),
                GKind::Tex(Tex::Storage { dim, arrayed, access, .. }) => stats.class(&format!("stex_{}_{access:?}", crate::render::dim_str(*dim, *arrayed))),
            }
        }
        let reach = crate::expect::entry_reach(&b.sh);
        stats.class_if(reach.iter().any(|r| !r.is_empty()), "entry_uses_resources");
    }
}

pub fn eval_replay(sut: &dyn Sut, v: &Value) -> Result<(), String> {
    eval_replay_exec(&C02(Tier::Thorough), sut, v)
}

pub fn run(sut: &dyn Sut, tier: Tier) -> ! {
    preflight::quiet_panics();
    let mut run = Run::new("C02", tier);
    run.rule = "generated shaders with every buffer / sampled / depth / multisampled / storage texture / sampler kind at sparse indices, every resource used by at least one entry point with the texel-type-correct builtin; plus the complete storage-texture table (41 formats x read/write/read_write x 1d/2d/2d_array/3d + atomic for r32uint/r32sint/r64uint = 504 bindings) in deterministic chunks of 8 on every run. The module is compiled and executed against the recording fake device; the recorded layouts (pipeline-layout order) are given as *provided* layouts to wgpu-core 24.0.5's unmodified validation::Interface::check_stage for every entry point, and checked with the transcribed entry rules of Device::create_bind_group_layout. Non-trivial = some entry point uses a texture, sampler or storage buffer; distinct by (wgsl, options).".to_string();
    run.assumptions = vec![
        "wgpu-core 24.0.5 validation::Interface (unmodified) is the oracle for visibility and type compatibility of used resources".into(),
        "create_bind_group_layout entry rules are transcribed from wgpu-core-24.0.5/src/device/resource.rs for a device with all features (trusted transcription); device capacity limits are not applied".into(),
        "documented assumption of the generator: float textures filterable, samplers filtering; integer textures are never sampled with a sampler".into(),
    ];
    let mut stats = Stats::new();
    run.canaries(&mut |v| eval_replay(sut, v));
    // the full storage table, every run
    let table: Vec<Vec<u32>> = (0..table_cases()).map(|k| vec![TABLE_SENTINEL, k as u32]).collect();
    stats.extra.insert("storage_table_bindings".into(), json!(storage_table().len()));
    if run_fixed(&C02(tier), sut, &mut run, &mut stats, &table) {
        run.finish(&stats);
    }
    let rounds = tier.pick(1, 8);
    let n = tier.pick(640, 1600);
    for r in 0..rounds {
        if run_round(&C02(tier), sut, &mut run, &mut stats, r as u64 + 1, n, (150, 900)) {
            break;
        }
    }
    stats.check_health("C02");
    run.finish(&stats)
}
