//! C06 — struct fields keep WGSL order, names and element types.

use crate::chooser::Ch;
use crate::engine::*;
use crate::exec::*;
use crate::expect;
use crate::gen::{gen_shader, Profile, TyProfile};
use crate::layout::Repr;
use crate::model::*;
use crate::outread;
use crate::preflight;
use crate::render::render;
use crate::structprobe;
use crate::sut::*;
use serde_json::{json, Value};

pub struct C06;

pub const REPRS: [Repr; 3] = [Repr::Rust, Repr::Glam, Repr::Nalgebra];

pub fn profile() -> Profile {
    let mut p = Profile::base();
    p.host_structs = (1, 4);
    p.members = (1, 6);
    p.ty = TyProfile::full();
    p.ty.bools = true;
    p.ty.max_array = 5;
    p.groups = (1, 2);
    p.bindings = (1, 3);
    p.w_buf = 8;
    p.w_tex = 1;
    p.w_samp = 0;
    p.w_stex = 0;
    p.funcs = (0, 1);
    p.stmts = (0, 1);
    p.entries = [(0, 2), (0, 1), (0, 1)];
    p.io_structs = true;
    p.vertex_struct_params = (0, 2);
    p.push = 2;
    p.private = 5;
    p.workgroup = 3;
    p.unused_structs = (0, 1);
    p.vin_as_storage = 2;
    p.out_as_storage = 1;
    p.keyword_names = 2;
    p.overrides = 2;
    p.ov_sized_array = 4;
    p.struct_helpers = 2;
    p.ty.len_edges = 2;
    p
}

pub const TABLE_SENTINEL: u32 = 0xC06_7AB1E;

/// Exhaustive leaf table: every scalar kind as scalar and vec2-4, atomics, all 9 matrix shapes in
/// f32 and f64; one case per representation and half.
pub fn table_case(k: usize) -> (Shader, Opts) {
    let repr = REPRS[k % 3];
    let half = k / 3;
    let mut sh = Shader::default();
    let mut members = Vec::new();
    let mut i = 0;
    let mut add = |ty: Ty, members: &mut Vec<Member>| {
        members.push(Member::plain(&format!("f{}_", i), ty));
        i += 1;
    };
    if half == 0 {
        for sc in [Sc::F32, Sc::I32, Sc::U32, Sc::F64, Sc::Bool] {
            add(Ty::S(sc), &mut members);
            for n in 2..=4 {
                add(Ty::V(n, sc), &mut members);
            }
        }
        for s in [Sc::F32, Sc::F64] {
            for c in 2..=4 {
                for r in 2..=4 {
                    add(Ty::M { c, r, s }, &mut members);
                }
            }
        }
        sh.structs.push(StructDef { name: "Leaves".into(), members });
        sh.globals.push(Global { name: "leaves".into(), kind: GKind::Buf { space: Space::Private, ty: Ty::St(0) }, binding: None });
    } else {
        add(Ty::At(Sc::U32), &mut members);
        add(Ty::At(Sc::I32), &mut members);
        add(Ty::A(Box::new(Ty::At(Sc::U32)), 3), &mut members);
        add(Ty::A(Box::new(Ty::V(3, Sc::F32)), 2), &mut members);
        add(Ty::A(Box::new(Ty::M { c: 2, r: 3, s: Sc::F32 }), 2), &mut members);
        add(Ty::A(Box::new(Ty::A(Box::new(Ty::V(2, Sc::U32)), 2)), 3), &mut members);
        sh.structs.push(StructDef { name: "Inner".into(), members: vec![Member::plain("a", Ty::V(3, Sc::I32)), Member::plain("b", Ty::S(Sc::F32))] });
        add(Ty::St(0), &mut members);
        add(Ty::A(Box::new(Ty::St(0)), 2), &mut members);
        members.push(Member::plain("tail", Ty::RA(Box::new(Ty::St(0)))));
        sh.structs.push(StructDef { name: "Composite".into(), members });
        sh.globals.push(Global { name: "composite".into(), kind: GKind::Buf { space: Space::StorageRW, ty: Ty::St(1) }, binding: Some((0, 0)) });
    }
    sh.entries.push(Entry { stage: Stage::Compute, name: "main".into(), params: vec![], result: EResult::None, wg: vec![WgDim::Lit(1)], body: vec![] });
    let opts = Opts { repr, encase_host: half == 1, ..Opts::default() };
    (sh, opts)
}

pub fn judge_structs(sh: &Shader, text: &str, obs: &Value) -> Result<(), String> {
    let out = outread::read(text).ok();
    for si in expect::emitted_structs(sh) {
        let sd = &sh.structs[si];
        let m = &obs["structs"][&sd.name];
        if m.is_null() {
            return Err(format!("no observation for struct `{}`", sd.name));
        }
        let mems = structprobe::emitted_members(sd);
        let want: Vec<String> = mems.iter().map(|x| x.name.clone()).collect();
        let got: Vec<String> = m["debug_fields"].as_array().map(|a| a.iter().map(|x| x.as_str().unwrap_or("").to_string()).collect()).unwrap_or_default();
        if got != want {
            return Err(format!("struct `{}` lists fields {got:?}; the WGSL struct declares the non-builtin members {want:?} in this order", sd.name));
        }
        let oks: Vec<bool> = m["type_ok"].as_array().map(|a| a.iter().map(|x| x.as_bool().unwrap_or(false)).collect()).unwrap_or_default();
        for (k, mm) in mems.iter().enumerate() {
            if !oks.get(k).copied().unwrap_or(false) {
                return Err(format!(
                    "struct `{}` field `{}`: the Rust type is not the one prescribed for WGSL `{}`",
                    sd.name,
                    mm.name,
                    mm.ty.wgsl(&sh.structs)
                ));
            }
        }
        // runtime-sized marker
        if let Some(o) = &out {
            if let Some(os) = o.structs.iter().find(|s| s.name == sd.name) {
                for mm in &mems {
                    if matches!(mm.ty, Ty::RA(_)) {
                        let f = os.fields.iter().find(|f| f.name == mm.name);
                        if !f.map(|f| f.attrs.iter().any(|a| a == "#[size(runtime)]")).unwrap_or(false) {
                            return Err(format!("struct `{}` field `{}` is a runtime-sized array but is not marked #[size(runtime)]", sd.name, mm.name));
                        }
                    }
                }
            }
        }
    }
    Ok(())
}

fn classes(sh: &Shader, opts: &Opts, stats: &mut Stats) {
    stats.class(&format!("repr_{:?}", opts.repr));
    for si in expect::emitted_structs(sh) {
        for m in &sh.structs[si].members {
            fn via_alias(t: &Ty, sh: &Shader) -> bool {
                sh.aliases.iter().any(|a| &a.ty == t) || matches!(t, Ty::A(e, _) | Ty::RA(e) if via_alias(e, sh))
            }
            stats.class_if(via_alias(&m.ty, sh), "member_type_via_alias");
            match &m.ty {
                Ty::A(e, _) => match **e {
                    Ty::V(..) => stats.class("array_of_vector"),
                    Ty::M { .. } => stats.class("array_of_matrix"),
                    Ty::St(_) => stats.class("array_of_struct"),
                    Ty::A(..) => stats.class("array_of_array"),
                    _ => stats.class("array_of_scalar"),
                },
                Ty::St(_) => stats.class("nested_struct"),
                Ty::RA(e) => stats.class(if matches!(**e, Ty::St(_)) { "runtime_array_of_struct" } else { "runtime_array" }),
                Ty::M { .. } => stats.class("matrix_member"),
                Ty::At(_) => stats.class("atomic_member"),
                Ty::S(Sc::Bool) | Ty::V(_, Sc::Bool) => stats.class("bool_member"),
                _ => {}
            }
            stats.class_if(matches!(m.io, Io::Builtin(_)), "builtin_member");
        }
    }
}

impl ExecProp for C06 {
    fn id(&self) -> &'static str {
        "C06"
    }
    fn build(&self, choices: &[u32], _stats: &mut Stats) -> Option<Built> {
        let (sh, opts) = if choices.len() == 2 && choices[0] == TABLE_SENTINEL {
            table_case(choices[1] as usize)
        } else {
            let mut ch = Ch::new(choices);
            let head: Vec<u32> = (0..4).map(|_| ch.raw()).collect();
            let mut h = Ch::new(&head);
            let sh = gen_shader(&mut ch, &profile());
            let repr = *h.pick(&REPRS);
            let opts = expect::compiling_opts(&sh, h.below(16), repr)?;
            (sh, opts)
        };
        let wgsl = render(&sh);
        Some(Built { sh, wgsl, include_path: None, opts, extra: Value::Null, files: vec![] })
    }
    fn probe_src(&self, b: &Built) -> String {
        structprobe::probe_source(&b.sh, b.opts.repr, false)
    }
    fn observes_item(&self, kind: &str, name: &str) -> bool {
        kind == "struct" && !matches!(name, "VertexEntry" | "FragmentEntry" | "OverrideConstants")
    }
    fn judge(&self, b: &Built, text: &str, obs: &Value, _stats: &mut Stats) -> Verdict {
        structprobe::check_glam_table(obs);
        match judge_structs(&b.sh, text, obs) {
            Ok(()) => Verdict::Ok,
            Err(m) => Verdict::Violation(m),
        }
    }
    fn nontrivial(&self, b: &Built) -> bool {
        expect::emitted_structs(&b.sh).iter().any(|si| {
            let sd = &b.sh.structs[*si];
            let builtin_between = sd.members.windows(3).any(|w| matches!(w[1].io, Io::Builtin(_)) && matches!(w[0].io, Io::Loc { .. }) && matches!(w[2].io, Io::Loc { .. }));
            builtin_between || sd.members.iter().any(|m| matches!(&m.ty, Ty::St(_) | Ty::RA(_)) || matches!(&m.ty, Ty::A(e, _) if !matches!(**e, Ty::S(_))))
        })
    }
    fn classes(&self, b: &Built, stats: &mut Stats) {
        classes(&b.sh, &b.opts, stats);
    }
}

pub fn eval_replay(sut: &dyn Sut, v: &Value) -> Result<(), String> {
    eval_replay_exec(&C06, sut, v)
}

pub fn run(sut: &dyn Sut, tier: Tier) -> ! {
    preflight::quiet_panics();
    let mut run = Run::new("C06", tier);
    run.rule = "exhaustive leaf table on every run (5 scalar kinds incl. bool as scalar and vec2-4, atomics, all 9 matrix shapes in f32 and f64, fixed compositions) x 3 representations; plus generated structs of every role (host-shareable in uniform/storage/private/workgroup/push constant, entry parameters with builtins between located members) with arrays of vectors/matrices/structs/arrays, nested structs, atomics, bool, runtime arrays of structs x Rust/Glam/Nalgebra. The module is compiled; per struct: an exhaustive struct literal (field set), the depth-1 field names of derive(Debug) output (order and names), TypeId equality of every field's type with the type prescribed by the statement's representation table composed structurally, and the #[size(runtime)] marker. Non-trivial = a member that is an array of non-scalars, a nested struct, a runtime array, or a builtin between located members; distinct by (wgsl, options).".to_string();
    run.assumptions = vec![
        "nalgebra is a stand-in crate (SMatrix<T,R,C>/SVector<T,D> with nalgebra's documented storage): path, generic arity and argument order are checked, not the real crate's trait bounds".into(),
        "plain-array matrices: scalar leaf and the dimension multiset {R,C} are demanded, either orientation is accepted (the repository's snapshots pin the orientation)".into(),
    ];
    run.exhaustive = true;
    let mut stats = Stats::new();
    run.canaries(&mut |v| eval_replay(sut, v));
    let table: Vec<Vec<u32>> = (0..6).map(|k| vec![TABLE_SENTINEL, k as u32]).collect();
    stats.extra.insert("leaf_table_cases".into(), json!(table.len()));
    if run_fixed(&C06, sut, &mut run, &mut stats, &table) {
        run.finish(&stats);
    }
    let rounds = tier.pick(1, 4);
    let n = tier.pick(640, 1600);
    for r in 0..rounds {
        if run_round(&C06, sut, &mut run, &mut stats, r as u64 + 1, n, (150, 800)) {
            break;
        }
    }
    stats.check_health("C06");
    run.finish(&stats)
}
