//! C04 — named bind group fields reach their own slot; groups bind at their own index.

use crate::chooser::Ch;
use crate::engine::*;
use crate::exec::*;
use crate::expect;
use crate::gen::{gen_shader, Profile, TyProfile};
use crate::model::*;
use crate::render::render;
use crate::sut::*;
use serde_json::{json, Value};
use std::fmt::Write;

pub struct C04(pub Tier);

pub fn profile(tier: Tier) -> Profile {
    let mut p = Profile::base();
    p.host_structs = (0, 2);
    p.ty = TyProfile::simple();
    p.ty.arrays = true;
    p.ty.rt = true;
    p.groups = (1, tier.pick(6, 8));
    p.bindings = (1, tier.pick(8, 12));
    p.sparse = true;
    p.huge_indices = true;
    p.shuffle_decl = true;
    p.funcs = (0, 1);
    p.stmts = (0, 2);
    p.entries = [(0, 1), (0, 1), (0, 1)];
    p.io_structs = false;
    p.push = 1;
    p.private = 0;
    p.workgroup = 0;
    p.unused_structs = (0, 0);
    p.keyword_names = 2;
    p
}

/// `let r_<gi> = ...;` for every resource and the expression handed to the field of that resource
pub fn resource_decls(sh: &Shader) -> (String, Vec<(usize, String)>) {
    let mut s = String::new();
    let mut exprs = Vec::new();
    for (gi, g) in sh.globals.iter().enumerate() {
        if g.binding.is_none() {
            continue;
        }
        match &g.kind {
            GKind::Buf { .. } => {
                writeln!(s, "    let r_{gi} = vs::buffer();").unwrap();
                exprs.push((gi, format!("wgpu::BufferBinding {{ buffer: &r_{gi}, offset: {}, size: std::num::NonZeroU64::new({}) }}", 256 * (gi as u64 + 1), 16 + gi)));
            }
            GKind::Tex(_) => {
                writeln!(s, "    let r_{gi} = vs::texture_view();").unwrap();
                exprs.push((gi, format!("&r_{gi}")));
            }
            GKind::Samp { .. } => {
                writeln!(s, "    let r_{gi} = vs::sampler();").unwrap();
                exprs.push((gi, format!("&r_{gi}")));
            }
        }
    }
    (s, exprs)
}

pub fn probe_source(sh: &Shader) -> String {
    let groups = expect::groups(sh);
    let mut s = String::new();
    s.push_str("use super::*;\nuse wgpu::verif_shim as vs;\nuse serde_json::json;\n");
    s.push_str("pub fn probe() -> serde_json::Value {\n");
    let case_mod = "CASEMOD";
    s.push_str("    vs::reset();\n    let device = vs::device();\n    let mut out = serde_json::Map::new();\n");
    let (decls, exprs) = resource_decls(sh);
    s.push_str(&decls);
    // resource table
    s.push_str("    let mut res = serde_json::Map::new();\n");
    for (gi, g) in sh.globals.iter().enumerate() {
        if g.binding.is_none() {
            continue;
        }
        match &g.kind {
            GKind::Buf { .. } => writeln!(
                s,
                "    res.insert(\"{gi}\".into(), json!({{\"kind\": \"Buffer\", \"id\": vs::id_of_buffer(&r_{gi}), \"offset\": {}u64, \"size\": {}u64}}));",
                256 * (gi as u64 + 1),
                16 + gi
            )
            .unwrap(),
            GKind::Tex(_) => writeln!(s, "    res.insert(\"{gi}\".into(), json!({{\"kind\": \"TextureView\", \"id\": vs::id_of_view(&r_{gi})}}));").unwrap(),
            GKind::Samp { .. } => writeln!(s, "    res.insert(\"{gi}\".into(), json!({{\"kind\": \"Sampler\", \"id\": vs::id_of_sampler(&r_{gi})}}));").unwrap(),
        }
    }
    s.push_str("    out.insert(\"resources\".into(), res.into());\n    let mut groups = serde_json::Map::new();\n");
    for (n, gis) in &groups {
        writeln!(s, "    let _ = vs::take_log();").unwrap();
        writeln!(s, "    let g{n} = {case_mod}::bind_groups::BindGroup{n}::from_bindings(&device, {case_mod}::bind_groups::BindGroupLayout{n} {{").unwrap();
        for gi in gis {
            let e = &exprs.iter().find(|(i, _)| i == gi).unwrap().1;
            writeln!(s, "        {}: {e},", expect::rid(&sh.globals[*gi].name)).unwrap();
        }
        s.push_str("    });\n");
        writeln!(s, "    let mut gm = serde_json::Map::new();\n    gm.insert(\"from_bindings\".into(), vs::take_log().into());").unwrap();
        for (pass, ctor) in [("compute", "compute_pass"), ("render", "render_pass"), ("bundle", "render_bundle_encoder")] {
            writeln!(s, "    {{ let mut pass = vs::{ctor}(); g{n}.set(&mut pass); gm.insert(\"set_{pass}\".into(), vs::take_log().into()); }}").unwrap();
        }
        writeln!(s, "    {{ let _l = {case_mod}::bind_groups::BindGroup{n}::get_bind_group_layout(&device); gm.insert(\"layout\".into(), vs::take_log().into()); }}").unwrap();
        writeln!(s, "    groups.insert(\"{n}\".into(), gm.into());").unwrap();
    }
    s.push_str("    out.insert(\"groups\".into(), groups.into());\n");
    if !groups.is_empty() {
        let args: Vec<String> = groups.keys().map(|n| format!("&g{n}")).collect();
        let fields: Vec<String> = groups.keys().map(|n| format!("bind_group{n}: &g{n}")).collect();
        for (pass, ctor) in [("compute", "compute_pass"), ("render", "render_pass"), ("bundle", "render_bundle_encoder")] {
            writeln!(
                s,
                "    {{ let mut pass = vs::{ctor}(); {case_mod}::set_bind_groups(&mut pass, {}); out.insert(\"set_bind_groups_{pass}\".into(), vs::take_log().into()); }}",
                args.join(", ")
            )
            .unwrap();
            writeln!(
                s,
                "    {{ let mut pass = vs::{ctor}(); let bgs = {case_mod}::bind_groups::BindGroups {{ {} }}; bgs.set(&mut pass); out.insert(\"bind_groups_set_{pass}\".into(), vs::take_log().into()); }}",
                fields.join(", ")
            )
            .unwrap();
        }
    }
    writeln!(s, "    {{ let _pl = {case_mod}::create_pipeline_layout(&device); out.insert(\"pipeline_layout\".into(), vs::take_log().into()); }}").unwrap();
    s.push_str("    out.into()\n}\n");
    s
}

fn events<'a>(v: &'a Value, key: &str) -> Vec<&'a Value> {
    v[key].as_array().map(|a| a.iter().collect()).unwrap_or_default()
}

fn layout_bindings(ev: &Value) -> Vec<u64> {
    let mut b: Vec<u64> = ev["entries"].as_array().map(|a| a.iter().map(|e| e["binding"].as_u64().unwrap_or(u64::MAX)).collect()).unwrap_or_default();
    b.sort();
    b
}

pub fn judge_obs(sh: &Shader, obs: &Value) -> Result<(), String> {
    let groups = expect::groups(sh);
    let mut bind_group_ids: Vec<(u32, u64)> = Vec::new();
    let mut layout_entries_by_group: Vec<(u32, Value)> = Vec::new();
    for (n, gis) in &groups {
        let g = &obs["groups"][n.to_string()];
        let fb = events(g, "from_bindings");
        let layouts: Vec<&&Value> = fb.iter().filter(|e| e["ev"] == "create_bind_group_layout").collect();
        let bgs: Vec<&&Value> = fb.iter().filter(|e| e["ev"] == "create_bind_group").collect();
        if bgs.len() != 1 || layouts.is_empty() {
            return Err(format!("group {n}: from_bindings made {} create_bind_group and {} create_bind_group_layout calls (expected 1 and >= 1)", bgs.len(), layouts.len()));
        }
        let bg = bgs[0];
        let Some(used_layout) = layouts.iter().find(|l| l["id"] == bg["layout"]) else {
            return Err(format!("group {n}: the bind group was not created with a layout made by from_bindings"));
        };
        let mut want: Vec<u64> = gis.iter().map(|gi| sh.globals[*gi].binding.unwrap().1 as u64).collect();
        want.sort();
        let lb = layout_bindings(used_layout);
        if lb != want {
            return Err(format!("group {n}: the layout used by from_bindings has binding indices {lb:?}, the shader declares {want:?}"));
        }
        let entries = bg["entries"].as_array().cloned().unwrap_or_default();
        let mut eb: Vec<u64> = entries.iter().map(|e| e["binding"].as_u64().unwrap_or(u64::MAX)).collect();
        eb.sort();
        if eb != want {
            return Err(format!("group {n}: the bind group supplies binding indices {eb:?}, its layout has {want:?}"));
        }
        for gi in gis {
            let b = sh.globals[*gi].binding.unwrap().1 as u64;
            let e = entries.iter().find(|e| e["binding"].as_u64() == Some(b)).unwrap();
            let want_res = &obs["resources"][gi.to_string()];
            let got = &e["resource"];
            let same = got["kind"] == want_res["kind"]
                && got["id"] == want_res["id"]
                && (want_res["kind"] != "Buffer" || (got["offset"] == want_res["offset"] && got["size"] == want_res["size"]));
            if !same {
                return Err(format!(
                    "group {n}: @binding({b}) (variable `{}`) received {got} but field `{}` was given {want_res}",
                    sh.globals[*gi].name, sh.globals[*gi].name
                ));
            }
        }
        let bgid = bg["id"].as_u64().unwrap();
        bind_group_ids.push((*n, bgid));
        for pass in ["compute", "render", "bundle"] {
            let ev = events(g, &format!("set_{pass}"));
            if ev.len() != 1 || ev[0]["ev"] != "set_bind_group" {
                return Err(format!("group {n}: set() on a {pass} pass recorded {} calls (expected exactly one set_bind_group)", ev.len()));
            }
            if ev[0]["index"].as_u64() != Some(*n as u64) || ev[0]["bind_group"].as_u64() != Some(bgid) || ev[0]["pass"] != pass {
                return Err(format!("group {n}: set() on a {pass} pass bound {} at index {} (expected its own bind group {bgid} at index {n})", ev[0]["bind_group"], ev[0]["index"]));
            }
            if ev[0]["offsets"].as_array().map(|a| !a.is_empty()).unwrap_or(true) {
                return Err(format!("group {n}: set() passed dynamic offsets {}", ev[0]["offsets"]));
            }
        }
        let lev = events(g, "layout");
        if lev.len() != 1 || lev[0]["ev"] != "create_bind_group_layout" {
            return Err(format!("group {n}: get_bind_group_layout made {} device calls", lev.len()));
        }
        if lev[0]["entries"] != used_layout["entries"] {
            return Err(format!("group {n}: get_bind_group_layout and from_bindings use different layouts"));
        }
        layout_entries_by_group.push((*n, lev[0]["entries"].clone()));
    }
    if !groups.is_empty() {
        for key in ["set_bind_groups", "bind_groups_set"] {
            for pass in ["compute", "render", "bundle"] {
                let ev = events(obs, &format!("{key}_{pass}"));
                let mut got: Vec<(u64, u64)> =
                    ev.iter().filter(|e| e["ev"] == "set_bind_group").map(|e| (e["index"].as_u64().unwrap_or(u64::MAX), e["bind_group"].as_u64().unwrap_or(0))).collect();
                if got.len() != ev.len() {
                    return Err(format!("{key} on a {pass} pass made unexpected device calls: {ev:?}"));
                }
                got.sort();
                let want: Vec<(u64, u64)> = bind_group_ids.iter().map(|(n, id)| (*n as u64, *id)).collect();
                if got != want {
                    return Err(format!("{key} on a {pass} pass bound (index, bind group) {got:?}, expected each group exactly once at its own index: {want:?}"));
                }
            }
        }
    }
    // pipeline layout
    let ev = events(obs, "pipeline_layout");
    let pls: Vec<&&Value> = ev.iter().filter(|e| e["ev"] == "create_pipeline_layout").collect();
    if pls.len() != 1 {
        return Err(format!("create_pipeline_layout made {} create_pipeline_layout calls", pls.len()));
    }
    let ids: Vec<u64> = pls[0]["bind_group_layouts"].as_array().map(|a| a.iter().map(|x| x.as_u64().unwrap_or(0)).collect()).unwrap_or_default();
    if ids.len() != groups.len() {
        return Err(format!("the pipeline layout lists {} bind group layouts, the shader has {} groups", ids.len(), groups.len()));
    }
    for (k, id) in ids.iter().enumerate() {
        let Some(l) = ev.iter().find(|e| e["ev"] == "create_bind_group_layout" && e["id"].as_u64() == Some(*id)) else {
            return Err(format!("pipeline layout slot {k} is not a layout created by create_pipeline_layout"));
        };
        let (n, want) = &layout_entries_by_group[k];
        if l["entries"] != *want {
            return Err(format!("pipeline layout slot {k} does not carry the layout of group {n}: {} vs {}", l["entries"], want));
        }
    }
    Ok(())
}

impl ExecProp for C04 {
    fn id(&self) -> &'static str {
        "C04"
    }
    fn build(&self, choices: &[u32], _stats: &mut Stats) -> Option<Built> {
        let mut ch = Ch::new(choices);
        let sh = gen_shader(&mut ch, &profile(self.0));
        let wgsl = render(&sh);
        let opts = crate::expect::plain_opts(&sh)?;
        Some(Built { sh, wgsl, include_path: None, opts, extra: Value::Null, files: vec![] })
    }
    fn probe_src(&self, b: &Built) -> String {
        probe_source(&b.sh)
    }
    fn observes_item(&self, kind: &str, name: &str) -> bool {
        (kind == "mod" && name == "bind_groups") || (kind == "fn" && (name == "set_bind_groups" || name == "create_pipeline_layout"))
    }
    fn judge(&self, b: &Built, _text: &str, obs: &Value, _stats: &mut Stats) -> Verdict {
        match judge_obs(&b.sh, obs) {
            Ok(()) => Verdict::Ok,
            Err(m) => Verdict::Violation(m),
        }
    }
    fn nontrivial(&self, b: &Built) -> bool {
        expect::groups(&b.sh).values().any(|gis| {
            if gis.len() < 2 {
                return false;
            }
            let idx: Vec<u32> = gis.iter().map(|g| b.sh.globals[*g].binding.unwrap().1).collect();
            let sorted = idx.windows(2).all(|w| w[0] < w[1]);
            let dense = idx.iter().enumerate().all(|(i, b)| *b as usize == i);
            !sorted || !dense
        })
    }
    fn classes(&self, b: &Built, stats: &mut Stats) {
        let g = expect::groups(&b.sh);
        stats.class(&format!("groups={}", g.len()));
        stats.class_if(g.values().any(|v| v.len() >= 6), "group_with>=6_bindings");
        stats.class_if(b.sh.globals.iter().any(|x| x.binding.map(|b| b.1 > 1000).unwrap_or(false)), "huge_binding_index");
        for x in &b.sh.globals {
            if x.binding.is_some() {
                stats.class(match &x.kind {
                    GKind::Buf { .. } => "res_buffer",
                    GKind::Tex(_) => "res_texture",
                    GKind::Samp { .. } => "res_sampler",
                });
            }
        }
    }
}

pub fn eval_replay(sut: &dyn Sut, v: &Value) -> Result<(), String> {
    eval_replay_exec(&C04(Tier::Thorough), sut, v)
}

pub fn run(sut: &dyn Sut, tier: Tier) -> ! {
    crate::preflight::quiet_panics();
    let mut run = Run::new("C04", tier);
    run.rule = "generated shaders with 1..8 groups, up to 12 bindings per group, binding indices drawn independently of declaration order (sparse, unordered, up to u32::MAX), all resource kinds; the generated module is compiled against the recording fake wgpu and executed: from_bindings with a distinct resource per named field, set / set_bind_groups / BindGroups::set on compute, render and bundle passes, get_bind_group_layout, create_pipeline_layout; the recorded calls are compared with the model. Non-trivial = a group with >= 2 bindings whose declaration order differs from index order or whose indices are not 0..k; distinct by (wgsl, options).".to_string();
    run.assumptions = vec![
        "the recording fake reproduces wgpu 24.0.5's public descriptor fields and method signatures (the same generated text is type-checked against the real crate by C01)".into(),
    ];
    let mut stats = Stats::new();
    run.canaries(&mut |v| eval_replay(sut, v));
    let rounds = tier.pick(1, 8);
    let n = tier.pick(640, 1600);
    let len = tier.pick((100, 600), (200, 1500));
    for r in 0..rounds {
        if run_round(&C04(tier), sut, &mut run, &mut stats, r as u64 + 1, n, len) {
            break;
        }
    }
    stats.check_health("C04");
    run.finish(&stats)
}
