//! C16 — embedded shader source is byte-identical to the input.

use crate::chooser::{hash_str, Ch};
use crate::engine::*;
use crate::exec::*;
use crate::gen::{gen_shader, Profile, TyProfile};
use crate::outread::{self, norm_tokens, SourceKind};
use crate::preflight;
use crate::render::render;
use crate::sut::*;
use serde_json::{json, Value};

pub struct C16;

const SPECIAL: &[char] = &[
    '"', '\'', '\\', '{', '}', '#', '$', '\r', '\n', '\t', '\0', '\u{1}', '\u{7}', '\u{8}', '\u{b}', '\u{c}', '\u{1b}', '\u{7f}', '\u{80}', '\u{85}', '\u{9f}', '\u{a0}',
    '\u{ad}', '\u{2028}', '\u{2029}', '\u{202a}', '\u{202e}', '\u{2066}', '\u{2069}', '\u{200b}', '\u{200d}', '\u{feff}', '\u{301}', '\u{36f}', '\u{fe0f}', 'é', 'ß', '名', '𝒳',
    '🦀', '\u{10ffff}', '\u{e000}', '\u{fffd}', 'İ', '%', '`', '~', '?', '\u{2060}',
];

const SNIPPETS: &[&str] = &[" ; ", " , ", " :: ", " . ", "# [", " ! ", " -> ", " => ", "{ }", "( )", " < ", " > ", " & ", "r # \"", "\r\n", "\\n", "\\\"", "\\u{41}", "{}", "{{", "r#\"", "\"#", "\\\\", "\\x00", "*/ /*", "//", "\"\"\"", "'\"'", "\\\r\n", "${x}", "{0}", "\u{1F469}\u{200D}\u{1F4BB}"];

pub const TOKEN_BOUNDARY_PAYLOADS: [&str; 16] = [" ; ", " , ", " :: ", " . ", " # [ ", " ! ", " -> ", " => ", " { } ", " ( ) ", " < ", " > ", " & ", " r # \" ", " ' a ", " = "];

fn payload(ch: &mut Ch) -> String {
    let n = ch.usize_range(0, 40);
    let mut s = String::new();
    for _ in 0..n {
        match ch.below(6) {
            0 | 1 => s.push(*ch.pick(SPECIAL)),
            2 => s.push_str(*ch.pick(SNIPPETS)),
            3 => s.push(char::from_u32(ch.range(0x20, 0x7e)).unwrap()),
            4 => {
                // any scalar value
                let v = ch.below(0x110000);
                if let Some(c) = char::from_u32(v) {
                    s.push(c);
                }
            }
            _ => s.push(' '),
        }
    }
    s
}

/// make the payload safe inside a (nesting) block comment
fn block_comment(p: &str) -> String {
    let cleaned = p.replace("*/", "* /").replace("/*", "/ *");
    // a trailing '*' or '/' could combine with the delimiters
    format!("/* {cleaned} */")
}

fn line_comment(p: &str) -> String {
    // WGSL line comments end at any line break code point
    let cleaned: String = p.chars().filter(|c| !matches!(c, '\n' | '\r' | '\u{b}' | '\u{c}' | '\u{85}' | '\u{2028}' | '\u{2029}')).collect();
    format!("// {cleaned}\n")
}

pub struct Case {
    pub wgsl: String,
    pub include_path: Option<String>,
    pub rustfmt: bool,
}

pub fn build_case(ch: &mut Ch, allow_rustfmt: bool) -> Case {
    let head: Vec<u32> = (0..200).map(|_| ch.raw()).collect();
    let mut h = Ch::new(&head);
    let mut p = Profile::base();
    p.host_structs = (0, 1);
    p.ty = TyProfile::simple();
    p.groups = (0, 1);
    p.bindings = (1, 2);
    p.funcs = (0, 1);
    p.stmts = (0, 2);
    p.entries = [(0, 1), (0, 1), (0, 1)];
    p.nonascii = 4;
    p.unused_structs = (0, 0);
    let mut sh = gen_shader(ch, &p);
    let mut pro = String::new();
    for _ in 0..h.usize_range(0, 2) {
        if h.flip() {
            pro.push_str(&block_comment(&payload(&mut h)));
            pro.push_str(*h.pick(&["\n", "\r\n", " ", ""]));
        } else {
            pro.push_str(&line_comment(&payload(&mut h)));
        }
    }
    sh.prologue = pro;
    let mut epi = String::new();
    for _ in 0..h.usize_range(0, 2) {
        if h.flip() {
            epi.push_str(&block_comment(&payload(&mut h)));
        } else {
            epi.push_str(&line_comment(&payload(&mut h)));
        }
        epi.push_str(*h.pick(&["", "\n", "\r\n", "\n\n", " \t"]));
    }
    sh.epilogue = epi;
    let mut wgsl = render(&sh);
    if h.chance(1, 4) {
        wgsl = wgsl.replace('\n', "\r\n");
    }
    let include_path = if h.chance(3, 8) {
        Some(match h.below(4) {
            0 => "shader.wgsl".to_string(),
            1 => format!("../shaders/{}.wgsl", payload(&mut h)),
            2 => payload(&mut h),
            _ => format!("C:\\dir \"q\"\\{}", payload(&mut h)),
        })
    } else {
        None
    };
    let rustfmt = allow_rustfmt && h.chance(1, 24);
    Case { wgsl, include_path, rustfmt }
}

fn has_special(s: &str) -> bool {
    s.chars().any(|c| c == '"' || c == '\\' || c.is_control() || (c as u32) > 0xffff || matches!(c, '\u{2028}' | '\u{2029}' | '\u{202a}'..='\u{202e}' | '\u{2066}'..='\u{2069}' | '\u{feff}' | '\u{200b}'..='\u{200f}'))
}

pub fn judge_wide(sut: &dyn Sut, c: &Case, stats: &mut Stats) -> Result<(), String> {
    if preflight::preflight(&c.wgsl).is_err() {
        stats.generator_invalid += 1;
        return Ok(());
    }
    let opts = Opts { rustfmt: c.rustfmt, encase_host: true, ..Opts::default() };
    let emb = match sut.generate(&c.wgsl, None, &opts) {
        Outcome::Ok(t) => t,
        other => {
            stats.skip(&format!("sut_{}", other.brief().chars().take(40).collect::<String>()));
            return Ok(());
        }
    };
    stats.evaluations += 1;
    stats.class_if(c.rustfmt, "rustfmt_on");
    stats.class_if(c.wgsl.contains('\r'), "has_CR");
    stats.class_if(c.wgsl.contains('\0'), "has_NUL");
    stats.class_if(c.wgsl.chars().any(|ch| (ch as u32) > 0xffff), "has_non_BMP");
    stats.class_if(c.wgsl.chars().any(|ch| matches!(ch, '\u{202a}'..='\u{202e}' | '\u{2066}'..='\u{2069}')), "has_bidi_control");
    stats.class_if(c.wgsl.contains('"') || c.wgsl.contains('\\'), "has_quote_or_backslash");
    if has_special(&c.wgsl) || c.include_path.as_deref().map(has_special).unwrap_or(false) {
        stats.nontrivial_case(hash_str(&format!("{}|{:?}|{}", c.wgsl, c.include_path, c.rustfmt)));
    }
    let ctx = || format!("rustfmt={} include_path={:?}\n--- source ({} bytes) ---\n{:?}", c.rustfmt, c.include_path, c.wgsl.len(), c.wgsl);
    let out = outread::read(&emb).map_err(|e| format!("{e}\n{}", ctx()))?;
    match &out.source {
        SourceKind::Literal(s) => {
            if s != &c.wgsl {
                let i = s.bytes().zip(c.wgsl.bytes()).position(|(a, b)| a != b).unwrap_or(s.len().min(c.wgsl.len()));
                return Err(format!("SOURCE evaluates to a different string than the input (lengths {} vs {}, first difference at byte {i})\n{}", s.len(), c.wgsl.len(), ctx()));
            }
        }
        SourceKind::Missing => return Err(format!("no SOURCE constant in the output\n{}", ctx())),
        SourceKind::Include(p) => return Err(format!("SOURCE of the embedded variant is include_str!({p:?}), not the source text\n{}", ctx())),
        SourceKind::Unknown(_) => {
            // an initialiser this reader cannot evaluate: the executed width (rustc evaluates the
            // constant) decides
            stats.class("reader_deferred_unknown_source_form");
            return Ok(());
        }
    }
    stats.sample(|| json!({"wgsl": c.wgsl, "include_path": c.include_path, "rustfmt": c.rustfmt}));
    // with the formatter option on, the constant must also be exact when no formatter can be spawned
    // (a sample of the cases: one worker process each, with an empty PATH directory)
    if c.rustfmt && hash_str(&c.wgsl) % 8 == 0 {
        let req = crate::worker::gen_request(&c.wgsl, None, &opts);
        let env = vec![("PATH".to_string(), format!("{VERIF_DIR}/stubs/empty"))];
        let r = crate::worker::run_child(&crate::worker::ChildSpec { cmd: "gen", request: &req, env_clear: true, env, cwd: Some(std::path::Path::new("/")), cpu_limit_s: 60, wall_limit_s: 120.0 });
        stats.class("formatter_on_but_absent");
        match r.response.as_ref().and_then(|v| crate::worker::woutcome_from_json(&v["outcome"])) {
            Some(crate::worker::WOutcome::Ok(text)) => {
                let o = outread::read(&text).map_err(|e| format!("formatter option on, no formatter available: {e}\n{}", ctx()))?;
                match &o.source {
                    SourceKind::Literal(s) if s == &c.wgsl => {}
                    SourceKind::Unknown(_) => {}
                    other => {
                        let d = format!("{other:?}");
                        return Err(format!("formatter option on, no formatter available: SOURCE is {} instead of the source text\n{}", d.chars().take(200).collect::<String>(), ctx()));
                    }
                }
            }
            Some(other) => return Err(format!("formatter option on, no formatter available: the call returned {} where it returns Ok with a formatter\n{}", other.brief(), ctx())),
            None => {
                eprintln!("C16 infrastructure: worker produced no result (exit {:?} signal {:?}) {}", r.exit_code, r.signal, r.stderr);
                std::process::exit(2);
            }
        }
    }
    if let Some(path) = &c.include_path {
        stats.class("include_variant");
        let inc = match sut.generate(&c.wgsl, Some(path), &opts) {
            Outcome::Ok(t) => t,
            other => return Err(format!("the include variant returned {} where the embedded variant returns Ok\n{}", other.brief(), ctx())),
        };
        let o2 = outread::read(&inc).map_err(|e| format!("include variant: {e}\n{}", ctx()))?;
        match &o2.source {
            SourceKind::Include(p) => {
                if p != path {
                    return Err(format!("SOURCE is include_str!({p:?}), the given path is {path:?}\n{}", ctx()));
                }
            }
            SourceKind::Unknown(_) => {
                stats.class("reader_deferred_unknown_source_form");
                return Ok(());
            }
            other => return Err(format!("SOURCE of the include variant is {other:?}, expected include_str! of the given path\n{}", ctx())),
        }
        // the rest of the output must be token-identical: replace the SOURCE initialiser in both
        let strip = |text: &str, o: &outread::Out| -> Result<Vec<String>, String> {
            let c = o.const_named("SOURCE").ok_or("no SOURCE")?;
            let lines: Vec<&str> = text.lines().collect();
            let mut kept = String::new();
            for (i, l) in lines.iter().enumerate() {
                let ln = i + 1;
                if ln < c.lines.0 || ln > c.lines.1 {
                    kept.push_str(l);
                    kept.push('\n');
                }
            }
            norm_tokens(&kept)
        };
        let a = strip(&emb, &out)?;
        let b = strip(&inc, &o2)?;
        if a != b {
            return Err(format!("the include variant differs from the embedded variant outside SOURCE\n{}", ctx()));
        }
    }
    Ok(())
}

impl ExecProp for C16 {
    fn id(&self) -> &'static str {
        "C16"
    }
    fn build(&self, choices: &[u32], _stats: &mut Stats) -> Option<Built> {
        let mut ch = Ch::new(choices);
        let c = build_case(&mut ch, false);
        let h = hash_str(&c.wgsl);
        let fname = format!("orig_{h:016x}.wgsl");
        // executed width: embedded, or include with a path that exists next to the generated module
        let include_path = if c.include_path.is_some() { Some(fname.clone()) } else { None };
        Some(Built {
            sh: Default::default(),
            wgsl: c.wgsl.clone(),
            include_path,
            opts: Opts { encase_host: true, ..Opts::default() },
            extra: json!({"file": fname}),
            files: vec![(fname, c.wgsl.into_bytes())],
        })
    }
    fn probe_src(&self, b: &Built) -> String {
        let f = b.extra["file"].as_str().unwrap();
        format!(
            "use super::*;\nuse wgpu::verif_shim as vs;\nuse serde_json::json;\npub fn probe() -> serde_json::Value {{\n    vs::reset();\n    let device = vs::device();\n    let orig: &[u8] = include_bytes!({f:?});\n    let _m = CASEMOD::create_shader_module(&device);\n    let log = vs::take_log();\n    json!({{\"source_eq\": CASEMOD::SOURCE.as_bytes() == orig, \"source_len\": CASEMOD::SOURCE.len(), \"orig_len\": orig.len(), \"log\": log, \"descriptor_source_eq\": log.iter().any(|e| e[\"ev\"] == \"create_shader_module\" && e[\"source\"].as_str().map(|s| s.as_bytes() == orig).unwrap_or(false))}})\n}}\n"
        )
    }
    fn observes_item(&self, kind: &str, name: &str) -> bool {
        (kind == "const" && name == "SOURCE") || (kind == "fn" && name == "create_shader_module")
    }
    fn judge(&self, _b: &Built, _text: &str, obs: &Value, _stats: &mut Stats) -> Verdict {
        if obs["source_eq"] != json!(true) {
            return Verdict::Violation(format!("SOURCE ({} bytes) is not byte-identical to the input ({} bytes) as evaluated by rustc", obs["source_len"], obs["orig_len"]));
        }
        let n = obs["log"].as_array().map(|a| a.iter().filter(|e| e["ev"] == "create_shader_module").count()).unwrap_or(0);
        if n != 1 || obs["descriptor_source_eq"] != json!(true) {
            return Verdict::Violation(format!("create_shader_module made {n} device calls / did not hand exactly the input string to the device"));
        }
        Verdict::Ok
    }
    fn nontrivial(&self, b: &Built) -> bool {
        has_special(&b.wgsl)
    }
    fn classes(&self, b: &Built, stats: &mut Stats) {
        stats.class("executed_width");
        stats.class_if(b.include_path.is_some(), "executed_include_variant");
    }
}

pub fn eval_replay(sut: &dyn Sut, v: &Value) -> Result<(), String> {
    if v["kind"] == "c16wide" {
        let c = Case { wgsl: v["wgsl"].as_str().unwrap_or("").to_string(), include_path: v["include_path"].as_str().map(|s| s.to_string()), rustfmt: v["rustfmt"].as_bool().unwrap_or(false) };
        return judge_wide(sut, &c, &mut Stats::new());
    }
    eval_replay_exec(&C16, sut, v)
}

pub fn run(sut: &dyn Sut, tier: Tier) -> ! {
    preflight::quiet_panics();
    let mut run = Run::new("C16", tier);
    run.rule = "a small generated shader (identifiers with non-ASCII letters) whose leading/trailing block and line comments carry a payload drawn from a character strategy rich in quotes, backslashes, braces, CR, CRLF, NUL and other C0/C1 controls, U+2028/2029, bidi controls, BOM, zero-width and combining marks, non-BMP and arbitrary scalar values, optionally CRLF line endings; include paths with quotes, backslashes, '..', controls and non-ASCII; rustfmt on for 1/24 of the wide cases; plus a fixed list of 16 payloads that look like the separators of a stringified token stream (` ; `, ` :: `, ` # [ `, ...), each with rustfmt off and on. Wide width: SOURCE's initialiser unescaped with syn must equal the input; the include variant must be include_str! of exactly the path and token-identical elsewhere. Executed width: rustc evaluates SOURCE.as_bytes() == include_bytes!(input) and the fake device records the string handed to create_shader_module. Non-trivial = the input (or path) contains a character that needs escaping, a control/format character or a non-BMP character; distinct by (wgsl, path, rustfmt).".to_string();
    let mut stats = Stats::new();
    run.canaries(&mut |v| eval_replay(sut, v));
    // fixed part: payloads that look like the separators of a stringified token stream, each with
    // rustfmt off and on, embedded and with an include path
    for (k, pay) in TOKEN_BOUNDARY_PAYLOADS.iter().enumerate() {
        for rustfmt in [false, true] {
            let wgsl = format!("/* {pay} */\n@compute @workgroup_size(1)\nfn main() {{ for (var i = 0u ; i < 4u ; i++) {{ }} }}\n// {pay}\n");
            let c = Case { wgsl, include_path: if k % 2 == 0 { Some(format!("dir{pay}shader.wgsl")) } else { None }, rustfmt };
            if let Err(m) = judge_wide(sut, &c, &mut stats) {
                run.violation(json!({"kind": "c16wide", "wgsl": c.wgsl, "include_path": c.include_path, "rustfmt": c.rustfmt}), &m);
                run.finish(&stats);
            }
        }
    }
    let cases = tier.pick(3000, 100000);
    let mut j = |choices: &[u32], st: &mut Stats| {
        let mut ch = Ch::new(choices);
        let c = build_case(&mut ch, true);
        judge_wide(sut, &c, st)
    };
    let mut found = run_inprocess(run.seed_for(1), cases, (210, 500), &mut stats, &mut j);
    if let Some(f) = found.take() {
        let mut ch = Ch::new(&f.choices);
        let c = build_case(&mut ch, true);
        run.violation(json!({"kind": "c16wide", "wgsl": c.wgsl, "include_path": c.include_path, "rustfmt": c.rustfmt, "choices": f.choices}), &f.message);
        run.finish(&stats);
    }
    if tier == Tier::Thorough {
        // coverage-guided search over the choice sequences, formatter off (no process spawning
        // inside a libFuzzer iteration)
        let mut jf = |choices: &[u32], st: &mut Stats| judge_choices(sut, choices, st);
        if let Some(f) = fuzz_choices(&run, &mut stats, (210, 500), 300, 12, 8_000, &mut jf) {
            let mut ch = Ch::new(&f.choices);
            let c = build_case(&mut ch, false);
            run.violation(json!({"kind": "c16wide", "wgsl": c.wgsl, "include_path": c.include_path, "rustfmt": c.rustfmt, "choices": f.choices}), &f.message);
            run.finish(&stats);
        }
    }
    let rounds = tier.pick(1, 4);
    let n = tier.pick(160, 800);
    for r in 0..rounds {
        if run_round(&C16, sut, &mut run, &mut stats, 100 + r as u64, n, (210, 500)) {
            break;
        }
    }
    stats.check_health("C16");
    run.finish(&stats)
}

/// wide-width judge as a function of the choice sequence (used by the coverage-guided target);
/// the formatter is left off: a libFuzzer iteration must not spawn processes
pub fn judge_choices(sut: &dyn Sut, choices: &[u32], stats: &mut Stats) -> Result<(), String> {
    let mut ch = Ch::new(choices);
    let c = build_case(&mut ch, false);
    judge_wide(sut, &c, stats)
}
