//! C14 — entry point metadata matches the shader's entry points.

use crate::chooser::Ch;
use crate::engine::*;
use crate::exec::*;
use crate::expect;
use crate::gen::{gen_shader, Profile, TyProfile};
use crate::model::*;
use crate::preflight;
use crate::render::render;
use crate::sut::*;
use serde_json::{json, Value};
use std::fmt::Write;

pub struct C14;

pub fn profile() -> Profile {
    let mut p = Profile::base();
    p.host_structs = (0, 1);
    p.ty = TyProfile::simple();
    p.groups = (0, 2);
    p.bindings = (1, 2);
    p.funcs = (0, 1);
    p.stmts = (0, 2);
    p.entries = [(0, 4), (0, 4), (0, 4)];
    p.io_structs = true;
    p.vertex_struct_params = (0, 3);
    p.push = 1;
    p.private = 0;
    p.workgroup = 0;
    p.unused_structs = (0, 0);
    p.nonascii = 2;
    p.f64_vertex = false;
    p.ty.f64_ = false;
    p.keyword_names = 1;
    p
}

pub fn fragment_targets(sh: &Shader, e: &Entry) -> usize {
    match &e.result {
        EResult::Loc { loc, .. } => *loc as usize + 1,
        EResult::Struct(i) => sh.structs[*i].members.iter().filter_map(|m| if let Io::Loc { loc, .. } = &m.io { Some(*loc as usize + 1) } else { None }).max().unwrap_or(0),
        _ => 0,
    }
}

pub fn wg_size(e: &Entry) -> [u32; 3] {
    let mut v = [1u32; 3];
    for (i, d) in e.wg.iter().enumerate().take(3) {
        v[i] = d.value();
    }
    v
}

fn rust_str(s: &str) -> String {
    format!("{s:?}")
}

pub fn probe_source(sh: &Shader) -> String {
    let mut s = String::new();
    s.push_str("use super::*;\nuse wgpu::verif_shim as vs;\nuse serde_json::json;\n");
    if sh.entries.iter().any(|e| e.stage == Stage::Fragment) {
        s.push_str("fn frag_n<const N: usize>(_: &CASEMOD::FragmentEntry<N>) -> usize { N }\n");
    }
    if sh.entries.iter().any(|e| e.stage == Stage::Vertex) {
        s.push_str("fn vert_n<const N: usize>(_: &CASEMOD::VertexEntry<N>) -> usize { N }\n");
    }
    s.push_str("pub fn probe() -> serde_json::Value {\n    vs::reset();\n    let device = vs::device();\n    let mut out = serde_json::Map::new();\n    let mut entries = serde_json::Map::new();\n");
    s.push_str("    out.insert(\"source\".into(), json!(CASEMOD::SOURCE));\n");
    for e in &sh.entries {
        let upper = e.name.to_uppercase();
        let key = rust_str(&e.name);
        writeln!(s, "    {{\n        let mut m = serde_json::Map::new();\n        let name_const: &str = CASEMOD::ENTRY_{upper};\n        m.insert(\"name_const\".into(), json!(name_const));").unwrap();
        match e.stage {
            Stage::Compute => {
                writeln!(s, "        let wg: [u32; 3] = CASEMOD::compute::{upper}_WORKGROUP_SIZE;\n        m.insert(\"workgroup_size\".into(), json!(wg));").unwrap();
                writeln!(s, "        let _ = vs::take_log();\n        let pipeline: wgpu::ComputePipeline = CASEMOD::compute::create_{}_pipeline(&device);\n        m.insert(\"pipeline_id\".into(), json!(vs::id_of_compute_pipeline(&pipeline)));\n        m.insert(\"log\".into(), vs::take_log().into());", e.name).unwrap();
            }
            Stage::Fragment => {
                writeln!(s, "        let entry = CASEMOD::{}_entry(std::array::from_fn(|_| None));", e.name).unwrap();
                s.push_str("        m.insert(\"n\".into(), json!(frag_n(&entry)));\n        m.insert(\"targets_len\".into(), json!(entry.targets.len()));\n        m.insert(\"entry_point\".into(), json!(entry.entry_point));\n        m.insert(\"constants_len\".into(), json!(entry.constants.len()));\n");
                s.push_str("        let module = CASEMOD::create_shader_module(&device);\n        let st: wgpu::FragmentState = CASEMOD::fragment_state(&module, &entry);\n");
                s.push_str("        m.insert(\"state_module_same\".into(), json!(std::ptr::eq(st.module, &module)));\n        m.insert(\"state_entry_point\".into(), json!(st.entry_point));\n        m.insert(\"state_targets_same\".into(), json!(std::ptr::eq(st.targets.as_ptr(), entry.targets.as_ptr()) && st.targets.len() == entry.targets.len()));\n        m.insert(\"state_constants_same\".into(), json!(std::ptr::eq(st.compilation_options.constants, &entry.constants)));\n        m.insert(\"state_zero_init\".into(), json!(st.compilation_options.zero_initialize_workgroup_memory));\n");
            }
            Stage::Vertex => {
                let nstruct = e.params.iter().filter(|p| matches!(p, EParam::Struct { .. })).count();
                let modes: Vec<String> = (0..nstruct).map(|i| if (i * 5 + nstruct) % 3 == 1 { "wgpu::VertexStepMode::Instance".to_string() } else { "wgpu::VertexStepMode::Vertex".to_string() }).collect();
                writeln!(s, "        let entry = CASEMOD::{}_entry({});", e.name, modes.join(", ")).unwrap();
                s.push_str("        m.insert(\"n\".into(), json!(vert_n(&entry)));\n        m.insert(\"buffers\".into(), entry.buffers.iter().map(|b| vs::vertex_buffer_layout_json(b)).collect::<Vec<_>>().into());\n        m.insert(\"entry_point\".into(), json!(entry.entry_point));\n        m.insert(\"constants_len\".into(), json!(entry.constants.len()));\n");
                s.push_str("        let module = CASEMOD::create_shader_module(&device);\n        let st: wgpu::VertexState = CASEMOD::vertex_state(&module, &entry);\n");
                s.push_str("        m.insert(\"state_module_same\".into(), json!(std::ptr::eq(st.module, &module)));\n        m.insert(\"state_entry_point\".into(), json!(st.entry_point));\n        m.insert(\"state_buffers_same\".into(), json!(std::ptr::eq(st.buffers.as_ptr(), entry.buffers.as_ptr()) && st.buffers.len() == entry.buffers.len()));\n        m.insert(\"state_constants_same\".into(), json!(std::ptr::eq(st.compilation_options.constants, &entry.constants)));\n        m.insert(\"state_zero_init\".into(), json!(st.compilation_options.zero_initialize_workgroup_memory));\n");
                // expected layouts of each struct parameter with the same step mode
                let mut k = 0;
                s.push_str("        let mut want: Vec<serde_json::Value> = Vec::new();\n");
                for p in &e.params {
                    if let EParam::Struct { st, .. } = p {
                        writeln!(s, "        want.push(vs::vertex_buffer_layout_json(&CASEMOD::{}::vertex_buffer_layout({})));", expect::rid(&sh.structs[*st].name), modes[k]).unwrap();
                        k += 1;
                    }
                }
                s.push_str("        m.insert(\"want_buffers\".into(), want.into());\n");
            }
        }
        writeln!(s, "        entries.insert({key}.into(), m.into());\n    }}").unwrap();
    }
    s.push_str("    out.insert(\"entries\".into(), entries.into());\n    out.into()\n}\n");
    s
}

pub fn judge_obs(sh: &Shader, obs: &Value) -> Result<(), String> {
    for e in &sh.entries {
        let m = &obs["entries"][&e.name];
        if m["name_const"].as_str() != Some(&e.name) {
            return Err(format!("the name constant of entry point `{}` evaluates to {}", e.name, m["name_const"]));
        }
        match e.stage {
            Stage::Compute => {
                let want = wg_size(e);
                let got: Vec<u64> = m["workgroup_size"].as_array().map(|a| a.iter().map(|x| x.as_u64().unwrap_or(0)).collect()).unwrap_or_default();
                if got != want.iter().map(|x| *x as u64).collect::<Vec<_>>() {
                    return Err(format!("workgroup size constant of `{}` is {got:?}, the shader says {want:?}", e.name));
                }
                let log = m["log"].as_array().cloned().unwrap_or_default();
                let sm: Vec<&Value> = log.iter().filter(|x| x["ev"] == "create_shader_module").collect();
                let pl: Vec<&Value> = log.iter().filter(|x| x["ev"] == "create_pipeline_layout").collect();
                let cp: Vec<&Value> = log.iter().filter(|x| x["ev"] == "create_compute_pipeline").collect();
                if sm.len() != 1 || pl.len() != 1 || cp.len() != 1 {
                    return Err(format!("create_{}_pipeline made {} shader modules, {} pipeline layouts, {} compute pipelines (expected one each)", e.name, sm.len(), pl.len(), cp.len()));
                }
                if cp[0]["entry_point"].as_str() != Some(&e.name) {
                    return Err(format!("create_{}_pipeline targets entry point {}", e.name, cp[0]["entry_point"]));
                }
                if cp[0]["module"] != sm[0]["id"] {
                    return Err(format!("create_{}_pipeline does not use the shader module it created", e.name));
                }
                if cp[0]["layout"] != pl[0]["id"] {
                    return Err(format!("create_{}_pipeline does not use the pipeline layout it created (layout = {})", e.name, cp[0]["layout"]));
                }
                if sm[0]["source"] != obs["source"] {
                    return Err(format!("create_{}_pipeline compiles a different source than SOURCE", e.name));
                }
                if cp[0]["id"] != m["pipeline_id"] {
                    return Err(format!("create_{}_pipeline does not return the pipeline it created", e.name));
                }
                if cp[0]["constants"].as_array().map(|a| !a.is_empty()).unwrap_or(true) {
                    return Err(format!("create_{}_pipeline passes override constants {}", e.name, cp[0]["constants"]));
                }
            }
            Stage::Fragment | Stage::Vertex => {
                if m["entry_point"].as_str() != Some(&e.name) || m["state_entry_point"].as_str() != Some(&e.name) {
                    return Err(format!("`{}_entry`/state carries entry point {} / {}", e.name, m["entry_point"], m["state_entry_point"]));
                }
                for k in ["state_module_same", "state_constants_same"] {
                    if m[k] != json!(true) {
                        return Err(format!("the state builder for `{}` does not forward {} unchanged", e.name, k.trim_start_matches("state_").trim_end_matches("_same")));
                    }
                }
                if m["constants_len"].as_u64() != Some(0) {
                    return Err(format!("`{}_entry` carries {} constants although the shader has no overrides", e.name, m["constants_len"]));
                }
                if e.stage == Stage::Fragment {
                    let want = fragment_targets(sh, e);
                    if m["n"].as_u64() != Some(want as u64) || m["targets_len"].as_u64() != Some(want as u64) {
                        return Err(format!(
                            "`{}_entry` takes {} colour targets; {} are needed to address every @location the entry point writes",
                            e.name, m["n"], want
                        ));
                    }
                    if m["state_targets_same"] != json!(true) {
                        return Err(format!("fragment_state for `{}` does not forward the targets unchanged", e.name));
                    }
                } else {
                    let want = e.params.iter().filter(|p| matches!(p, EParam::Struct { .. })).count();
                    let bufs = m["buffers"].as_array().cloned().unwrap_or_default();
                    if m["n"].as_u64() != Some(want as u64) || bufs.len() != want {
                        return Err(format!("`{}_entry` yields {} vertex buffer layouts for {} struct parameters", e.name, m["n"], want));
                    }
                    if m["buffers"] != m["want_buffers"] {
                        return Err(format!("`{}_entry` buffers {} are not the struct parameters' layouts in parameter order with the caller's step modes {}", e.name, m["buffers"], m["want_buffers"]));
                    }
                    if m["state_buffers_same"] != json!(true) {
                        return Err(format!("vertex_state for `{}` does not forward the buffers unchanged", e.name));
                    }
                }
            }
        }
    }
    Ok(())
}

impl ExecProp for C14 {
    fn id(&self) -> &'static str {
        "C14"
    }
    fn build(&self, choices: &[u32], _stats: &mut Stats) -> Option<Built> {
        let mut ch = Ch::new(choices);
        let mut sh = gen_shader(&mut ch, &profile());
        // workgroup sizes from constants for some compute entries
        let mut k = 0;
        for e in sh.entries.iter_mut() {
            if e.stage == Stage::Compute {
                for d in e.wg.iter_mut() {
                    if ch.chance(2, 8) {
                        let name = format!("WG_{k}");
                        k += 1;
                        let v = d.value();
                        sh.consts.push(ConstDef { name: name.clone(), decl: format!(": u32 = {v}u"), expect: Some(ConstVal::U32(v)) });
                        *d = WgDim::Const(name, v);
                    }
                }
            }
        }
        // a fragment entry point with dual source blending: two results at @location(0)
        if ch.chance(1, 8) {
            let v4 = Ty::V(4, Sc::F32);
            let mk = |n: &str| Member { name: n.to_string(), ty: v4.clone(), size_attr: None, align_attr: None, io: Io::Loc { loc: 0, flat: false } };
            sh.structs.push(StructDef { name: format!("DualSrcOut{}", sh.structs.len()), members: vec![mk("dual_c0"), mk("dual_c1")] });
            let st = sh.structs.len() - 1;
            sh.entries.push(Entry { stage: Stage::Fragment, name: format!("fs_dual_{}", sh.entries.len()), params: vec![], result: EResult::Struct(st), wg: vec![], body: vec![] });
        }
        let wgsl = render(&sh);
        let opts = expect::plain_opts(&sh)?;
        Some(Built { sh, wgsl, include_path: None, opts, extra: Value::Null, files: vec![] })
    }
    fn probe_src(&self, b: &Built) -> String {
        probe_source(&b.sh)
    }
    fn observes_item(&self, kind: &str, name: &str) -> bool {
        match kind {
            "const" => name.starts_with("ENTRY_"),
            "mod" => name == "compute",
            "fn" => name.ends_with("_entry") || name == "vertex_state" || name == "fragment_state" || name == "create_shader_module",
            "struct" => name == "VertexEntry" || name == "FragmentEntry",
            _ => false,
        }
    }
    fn judge(&self, b: &Built, _text: &str, obs: &Value, _stats: &mut Stats) -> Verdict {
        match judge_obs(&b.sh, obs) {
            Ok(()) => Verdict::Ok,
            Err(m) => Verdict::Violation(m),
        }
    }
    fn nontrivial(&self, b: &Built) -> bool {
        let sh = &b.sh;
        let multi = Stage::ALL.iter().any(|s| sh.entries.iter().filter(|e| e.stage == *s).count() >= 2);
        let sparse_frag = sh.entries.iter().any(|e| {
            e.stage == Stage::Fragment && {
                let n = fragment_targets(sh, e);
                let count = match &e.result {
                    EResult::Loc { .. } => 1,
                    EResult::Struct(i) => sh.structs[*i].members.iter().filter(|m| matches!(m.io, Io::Loc { .. })).count(),
                    _ => 0,
                };
                n != count
            }
        });
        let wg_missing = sh.entries.iter().any(|e| e.stage == Stage::Compute && e.wg.len() < 3);
        multi || sparse_frag || wg_missing
    }
    fn classes(&self, b: &Built, stats: &mut Stats) {
        for e in &b.sh.entries {
            stats.class(&format!("entry_{:?}", e.stage));
            if e.stage == Stage::Fragment {
                stats.class(match &e.result {
                    EResult::None => "frag_no_result",
                    EResult::Builtin { .. } => "frag_builtin_result",
                    EResult::Loc { loc: 0, .. } => "frag_location0",
                    EResult::Loc { .. } => "frag_location_k",
                    EResult::Struct(_) => "frag_struct_result",
                });
            }
            if e.stage == Stage::Compute {
                stats.class(&format!("wg_dims={}", e.wg.len()));
                stats.class_if(e.wg.iter().any(|d| matches!(d, WgDim::Const(..))), "wg_from_const");
            }
            if e.stage == Stage::Vertex {
                stats.class(&format!("vertex_struct_params={}", e.params.iter().filter(|p| matches!(p, EParam::Struct { .. })).count()));
            }
            stats.class_if(!e.name.is_ascii(), "non_ascii_entry_name");
        }
    }
}

pub fn eval_replay(sut: &dyn Sut, v: &Value) -> Result<(), String> {
    eval_replay_exec(&C14, sut, v)
}

pub fn run(sut: &dyn Sut, tier: Tier) -> ! {
    preflight::quiet_panics();
    let mut run = Run::new("C14", tier);
    run.rule = "generated shaders with 0-4 entry points per stage, ASCII and non-ASCII names, workgroup sizes with 1-3 dimensions from literals and constants, fragment results none / builtin only / @location(k) direct / structs with sparse locations and builtins, vertex entries with 0-3 struct parameters (shared structs, interleaved builtin parameters). The generated module is compiled and executed against the fake device: name constants, workgroup size constants, the descriptor recorded by each compute pipeline constructor (module created from SOURCE, own pipeline layout, entry name), const-generic N of each fragment/vertex entry helper, buffers in parameter order with the caller's step modes, and pointer identity of what vertex_state/fragment_state forward. Non-trivial = >= 2 entries of one stage, or a fragment result whose locations are not 0..k-1, or a workgroup size with a missing dimension; distinct by (wgsl, options).".to_string();
    let mut stats = Stats::new();
    run.canaries(&mut |v| eval_replay(sut, v));
    let rounds = tier.pick(1, 8);
    let n = tier.pick(640, 1600);
    for r in 0..rounds {
        if run_round(&C14, sut, &mut run, &mut stats, r as u64 + 1, n, (150, 800)) {
            break;
        }
    }
    stats.check_health("C14");
    run.finish(&stats)
}
