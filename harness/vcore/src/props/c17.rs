//! C17 — parse and validation failures come back as errors; validation only gates.
//! Differential against naga called directly on the same text.

use crate::chooser::{hash_str, Ch};
use crate::engine::*;
use crate::gen::{gen_shader, Profile};
use crate::preflight;
use crate::props::c11::caps_of;
use crate::render::render;
use crate::sut::*;
use serde_json::json;
use std::panic::{catch_unwind, AssertUnwindSafe};

pub const PATH: &str = "some dir/shader ß.wgsl";

const DICT: &[&str] = &[
    "fn", "var", "let", "const", "override", "struct", "return", "if", "else", "loop", "for", "while", "switch", "case", "default", "break",
    "continue", "continuing", "discard", "@vertex", "@fragment", "@compute", "@group(0)", "@binding(0)", "@location(0)", "@builtin(position)",
    "@workgroup_size(1)", "@interpolate(flat)", "@align(16)", "@size(16)", "@id(3)", "vec2<f32>", "vec3<u32>", "vec4<f32>", "mat4x4<f32>",
    "array<f32, 4>", "array<u32>", "atomic<u32>", "f32", "i32", "u32", "f64", "f16", "bool", "texture_2d<f32>", "texture_storage_2d<rgba8unorm, write>",
    "sampler", "sampler_comparison", "ptr<function, f32>", "<uniform>", "<storage, read_write>", "<workgroup>", "<private>", "<push_constant>",
    "->", "::", "&", "*", "+", "-", "/", "%", "==", "!=", "<", ">", "<=", ">=", "&&", "||", "!", "~", "=", "+=", "++", "--", ";", ",", ":", ".",
    "(", ")", "{", "}", "[", "]", "1", "0", "1u", "1i", "1.0", "1.0f", "1.5lf", "1e999", "0x", "0xFFFFFFFFFF", "99999999999999999999", "true", "false",
    "_", "enable f16;", "requires", "alias", "bitcast<u32>", "textureSample", "arrayLength", "workgroupBarrier()", "main", "self", "super", "\"", "'",
    "/*", "*/", "//", "#", "$", "`", "\\",
];

const UNICODE: &[&str] = &[
    "\0", "\u{1}", "\u{7f}", "\u{85}", "\u{a0}", "\u{feff}", "\u{202e}", "\u{2028}", "\u{2029}", "\u{301}", "ß", "é", "名", "𝒳", "🦀", "\u{10ffff}",
    "\r", "\r\n", "\t", "\u{b}", "\u{c}", "\u{200b}", "\u{200d}", "İ", "ǆ",
];

/// Parsable-but-invalid (or valid-only-under-some-capabilities) snippets appended to a shader.
const SEMANTIC: &[&str] = &[
    "fn sem_missing_return() -> f32 { }\n",
    "@vertex fn sem_no_binding(a: f32) -> @builtin(position) vec4<f32> { return vec4<f32>(a); }\n",
    "@vertex fn sem_no_position() -> @location(0) vec4<f32> { return vec4<f32>(0.0); }\n",
    "@group(7) @binding(0) var<uniform> sem_u1: vec4<f32>;\n@group(7) @binding(0) var<uniform> sem_u2: vec4<f32>;\n@compute @workgroup_size(1) fn sem_collide() { let a = sem_u1.x + sem_u2.x; }\n",
    "@group(6) @binding(0) var<uniform> sem_bad_uniform: array<f32, 4>;\n@compute @workgroup_size(1) fn sem_stride() { let a = sem_bad_uniform[0]; }\n",
    "@group(5) @binding(0) var sem_t: texture_2d<f32>;\n@group(5) @binding(1) var sem_s: sampler;\n@fragment fn sem_nonuniform(@location(0) v: f32) -> @location(0) vec4<f32> { if (v > 0.5) { return textureSample(sem_t, sem_s, vec2<f32>(v)); } return vec4<f32>(0.0); }\n",
    "@compute @workgroup_size(0) fn sem_zero_wg() { }\n",
    "@fragment fn sem_int_interp(@location(0) v: i32) -> @location(0) vec4<f32> { return vec4<f32>(f32(v)); }\n",
    "@fragment fn sem_dup_loc() -> SemDup { var o: SemDup; return o; }\nstruct SemDup { @location(0) a: vec4<f32>, @location(0) b: vec4<f32>, }\n",
    "var<private> sem_f64: f64 = 1.0lf;\n",
    "@group(4) @binding(0) var<storage, read_write> sem_i64: array<i64, 2>;\n",
    "var<workgroup> sem_wg: array<atomic<u32>, 4>;\n@vertex fn sem_wg_in_vertex() -> @builtin(position) vec4<f32> { atomicAdd(&sem_wg[0], 1u); return vec4<f32>(0.0); }\n",
    "var<push_constant> sem_pc1: f32;\nvar<push_constant> sem_pc2: f32;\n@compute @workgroup_size(1) fn sem_two_pc() { let a = sem_pc1 + sem_pc2; }\n",
    "fn sem_let_assign() { let a = 1; a = 2; }\n",
    "fn sem_wrong_arg() -> f32 { return sin(1u); }\n",
    "fn sem_rec_a() { sem_rec_b(); }\nfn sem_rec_b() { sem_rec_a(); }\n",
    "@group(3) @binding(0) var sem_st: texture_storage_2d<rgba8unorm, read>;\n@compute @workgroup_size(1) fn sem_store_ro() { textureStore(sem_st, vec2<i32>(0), vec4<f32>(0.0)); }\n",
    "fn sem_ptr(p: ptr<storage, f32>) { }\n",
    "struct SemRt { a: array<f32>, b: f32, }\n",
    "@group(2) @binding(0) var<uniform> sem_rt_uniform: array<vec4<f32>>;\n",
    "@compute @workgroup_size(1) fn sem_subgroup(@builtin(subgroup_invocation_id) i: u32) { }\n",
    "const SEM_OVF: i32 = 2147483647 + 1;\n",
    "@fragment fn sem_frag_depth_type() -> @builtin(frag_depth) vec4<f32> { return vec4<f32>(0.0); }\n",
];

fn tokenize(s: &str) -> Vec<(usize, usize)> {
    // byte ranges of tokens: identifier/number runs, whitespace runs, single other chars
    let mut out = Vec::new();
    let mut it = s.char_indices().peekable();
    while let Some((i, c)) = it.next() {
        let class = |c: char| if c.is_alphanumeric() || c == '_' || c == '.' { 0 } else if c.is_whitespace() { 1 } else { 2 };
        let k = class(c);
        let mut end = i + c.len_utf8();
        if k != 2 {
            while let Some((j, d)) = it.peek().copied() {
                if class(d) == k {
                    end = j + d.len_utf8();
                    it.next();
                } else {
                    break;
                }
            }
        }
        out.push((i, end));
    }
    out
}

fn char_boundary(s: &str, mut i: usize) -> usize {
    i = i.min(s.len());
    while !s.is_char_boundary(i) {
        i -= 1;
    }
    i
}

pub fn corrupt(ch: &mut Ch, base: &str) -> (String, &'static str) {
    let mut s = base.to_string();
    let n_ops = 1 + ch.below(3);
    let mut label = "";
    for _ in 0..n_ops {
        let toks = tokenize(&s);
        let non_ws: Vec<usize> = (0..toks.len()).filter(|i| !s[toks[*i].0..toks[*i].1].chars().all(|c| c.is_whitespace())).collect();
        let op = ch.below(13);
        label = match op {
            0 => {
                let at = char_boundary(&s, ch.idx(s.len() + 1));
                s.truncate(at);
                "truncate"
            }
            1 => {
                let a = char_boundary(&s, ch.idx(s.len() + 1));
                let b = char_boundary(&s, (a + ch.idx(40)).min(s.len()));
                s.replace_range(a..b, "");
                "delete_range"
            }
            2 => {
                let a = char_boundary(&s, ch.idx(s.len() + 1));
                let b = char_boundary(&s, (a + ch.idx(60)).min(s.len()));
                let piece = s[a..b].to_string();
                let at = char_boundary(&s, ch.idx(s.len() + 1));
                s.insert_str(at, &piece);
                "duplicate_range"
            }
            3 if non_ws.len() >= 2 => {
                let k = ch.idx(non_ws.len() - 1);
                let (a, b) = (toks[non_ws[k]], toks[non_ws[k + 1]]);
                let ta = s[a.0..a.1].to_string();
                let tb = s[b.0..b.1].to_string();
                let mid = s[a.1..b.0].to_string();
                s.replace_range(a.0..b.1, &format!("{tb}{mid}{ta}"));
                "swap_tokens"
            }
            4 if !non_ws.is_empty() => {
                let t = toks[*ch.pick(&non_ws)];
                s.replace_range(t.0..t.1, *ch.pick(DICT));
                "replace_token"
            }
            5 if !non_ws.is_empty() => {
                let t = toks[*ch.pick(&non_ws)];
                s.insert_str(t.0, &format!("{} ", *ch.pick(DICT)));
                "insert_token"
            }
            6 => {
                let brackets: Vec<usize> = s.char_indices().filter(|(_, c)| "(){}[]<>".contains(*c)).map(|(i, _)| i).collect();
                if !brackets.is_empty() && ch.flip() {
                    let i = *ch.pick(&brackets);
                    s.remove(i);
                } else {
                    let at = char_boundary(&s, ch.idx(s.len() + 1));
                    s.insert(at, *ch.pick(&['(', ')', '{', '}', '[', ']', '<', '>']));
                }
                "unbalance"
            }
            7 => {
                let nums: Vec<usize> =
                    (0..toks.len()).filter(|i| s[toks[*i].0..toks[*i].1].chars().next().map(|c| c.is_ascii_digit()).unwrap_or(false)).collect();
                if !nums.is_empty() {
                    let t = toks[*ch.pick(&nums)];
                    let lit = *ch.pick(&[
                        "1e999", "0x", "99999999999999999999", "4294967296", "-0", "1.0f", "1lf", "0xFFFFFFFFu", "2147483648", "1e-999", "0.0.0", "1u32", "007", "1_000",
                        "3.4028236e38", "0x1p128f", "1h",
                    ]);
                    s.replace_range(t.0..t.1, lit);
                }
                "mangle_literal"
            }
            8 => {
                let at = char_boundary(&s, ch.idx(s.len() + 1));
                s.insert_str(at, *ch.pick(UNICODE));
                "inject_unicode"
            }
            12 => {
                // something at the very start or the very end of the text
                let piece = *ch.pick(UNICODE);
                if ch.flip() {
                    s.insert_str(0, piece);
                } else {
                    s.push_str(piece);
                }
                "inject_at_boundary"
            }
            9 | 10 => {
                let snip = *ch.pick(SEMANTIC);
                if ch.flip() {
                    s.push_str(snip);
                } else {
                    s.insert_str(0, snip);
                }
                "semantic"
            }
            _ => {
                // delete one whole token
                if !non_ws.is_empty() {
                    let t = toks[*ch.pick(&non_ws)];
                    s.replace_range(t.0..t.1, "");
                }
                "delete_token"
            }
        };
    }
    (s, label)
}

pub fn load_fixtures() -> Vec<String> {
    fn walk(dir: &std::path::Path, out: &mut Vec<std::path::PathBuf>, depth: usize) {
        if depth > 6 {
            return;
        }
        let Ok(rd) = std::fs::read_dir(dir) else { return };
        let mut entries: Vec<_> = rd.filter_map(|e| e.ok()).map(|e| e.path()).collect();
        entries.sort();
        for p in entries {
            let name = p.file_name().and_then(|n| n.to_str()).unwrap_or("");
            if p.is_dir() {
                if name != "target" && !name.starts_with('.') {
                    walk(&p, out, depth + 1);
                }
            } else if name.ends_with(".wgsl") {
                out.push(p);
            }
        }
    }
    let mut files = Vec::new();
    walk(std::path::Path::new("/repo"), &mut files, 0);
    files.iter().filter_map(|p| std::fs::read_to_string(p).ok()).collect()
}

fn gen_validate(ch: &mut Ch) -> Validate {
    match ch.below(6) {
        0 => Validate::All,
        1 => Validate::Default,
        2 => Validate::Bits(ch.raw()),
        // boundary sets: no capability at all, exactly one capability
        4 => Validate::Bits(0),
        5 => Validate::Bits(1 << ch.below(32)),
        _ => {
            // all capabilities minus a few
            let mut bits = naga::valid::Capabilities::all().bits();
            for _ in 0..3 {
                bits &= !(1 << ch.below(32));
            }
            Validate::Bits(bits)
        }
    }
}

pub struct Case {
    pub text: String,
    pub validate: Validate,
    pub label: &'static str,
}

pub fn build_case(ch_all: &mut Ch, fixtures: &[String]) -> Case {
    // the first 24 choices drive the corruption, the rest the base shader, so that a long base
    // shader cannot starve the corruption of entropy
    let head: Vec<u32> = (0..24).map(|_| ch_all.raw()).collect();
    let mut chh = Ch::new(&head);
    let validate = gen_validate(&mut chh);
    let uncorrupted = chh.chance(1, 8);
    let ch = ch_all;
    let base = if !fixtures.is_empty() && ch.chance(3, 8) {
        ch.pick(fixtures).clone()
    } else {
        let mut p = Profile::base();
        p.overrides = 3;
        p.wg_override = 4;
        p.ov_sized_array = 3;
        p.struct_helpers = 2;
        p.host_structs = (0, 2);
        p.funcs = (0, 2);
        p.stmts = (0, 3);
        p.groups = (0, 2);
        p.bindings = (1, 3);
        p.phony_refs = 3;
        // keep inside the generator's supported set so that 'accepted' cases really exercise generation
        render(&gen_shader(ch, &p))
    };
    if uncorrupted {
        return Case { text: base, validate, label: "uncorrupted" };
    }
    let (text, label) = corrupt(&mut chh, &base);
    Case { text, validate, label }
}

pub fn judge(sut: &dyn Sut, c: &Case, stats: &mut Stats) -> Result<(), String> {
    let text = &c.text;
    let ctx = |what: String| format!("{what}\nvalidate={:?} corruption={}\n--- source ---\n{}", c.validate, c.label, text);
    // reference: naga called directly
    let ref_parse = catch_unwind(AssertUnwindSafe(|| naga::front::wgsl::parse_str(text)));
    let ref_parse = match ref_parse {
        Ok(r) => r,
        Err(_) => {
            stats.skip("naga_parser_panicked");
            return Ok(());
        }
    };
    stats.evaluations += 1;
    stats.class(c.label);
    let off = sut.generate(text, None, &Opts::default());
    let on = sut.generate(text, None, &Opts { validate: c.validate, ..Opts::default() });
    let key = hash_str(&format!("{text}|{:?}", c.validate));
    match ref_parse {
        Err(pe) => {
            stats.class("ref_parse_error");
            stats.nontrivial_case(key);
            let want_inner = pe.to_string();
            let want_emit = catch_unwind(AssertUnwindSafe(|| pe.emit_to_string(text))).ok();
            let want_emit_path = catch_unwind(AssertUnwindSafe(|| pe.emit_to_string_with_path(text, PATH))).ok();
            for (name, o) in [("validation off", &off), ("validation on", &on)] {
                match o {
                    Outcome::Err(e) if e.kind == ErrKind::Parse => {
                        if e.inner != want_inner {
                            return Err(ctx(format!("{name}: ParseError carries {:?}, the front end says {:?}", e.inner, want_inner)));
                        }
                        if !e.display.contains(&want_inner) {
                            return Err(ctx(format!("{name}: error Display {:?} does not contain the front end's message {:?}", e.display, want_inner)));
                        }
                        // rendering must not panic where naga's own rendering does not
                        if want_emit.is_some() && e.emit != want_emit {
                            return Err(ctx(format!("{name}: emit_to_string differs from the front end's rendering: {:?} vs {:?}", e.emit, want_emit)));
                        }
                        if want_emit_path.is_some() && e.emit_path != want_emit_path {
                            return Err(ctx(format!("{name}: emit_to_string_with_path differs: {:?} vs {:?}", e.emit_path, want_emit_path)));
                        }
                        if want_emit.is_some() && !e.emit_stderr_ok {
                            return Err(ctx(format!("{name}: emit_to_stderr panicked")));
                        }
                    }
                    other => return Err(ctx(format!("{name}: the front end rejects this text ({want_inner}) but the call returned {}", other.brief()))),
                }
            }
            Ok(())
        }
        Ok(module) => {
            let caps = caps_of(c.validate);
            let rv = catch_unwind(AssertUnwindSafe(|| naga::valid::Validator::new(naga::valid::ValidationFlags::all(), caps).validate(&module)));
            let rv = match rv {
                Ok(r) => r,
                Err(_) => {
                    stats.skip("naga_validator_panicked");
                    return Ok(());
                }
            };
            // with validation off the result must not be a parse/validation error
            if let Outcome::Err(e) = &off {
                if matches!(e.kind, ErrKind::Parse | ErrKind::Validation) {
                    return Err(ctx(format!("validation off: the front end accepts this text but the call returned {}", off.brief())));
                }
            }
            match rv {
                Err(ve) => {
                    stats.class("ref_validation_error");
                    stats.nontrivial_case(key);
                    let want_inner = ve.to_string();
                    let want_emit = catch_unwind(AssertUnwindSafe(|| ve.emit_to_string(text))).ok();
                    let want_emit_path = catch_unwind(AssertUnwindSafe(|| ve.emit_to_string_with_path(text, PATH))).ok();
                    match &on {
                        Outcome::Err(e) if e.kind == ErrKind::Validation => {
                            if e.inner != want_inner {
                                return Err(ctx(format!("ValidationError carries {:?}, the validator says {:?}", e.inner, want_inner)));
                            }
                            if want_emit.is_some() && e.emit != want_emit {
                                return Err(ctx(format!("emit_to_string differs from the validator's rendering: {:?} vs {:?}", e.emit, want_emit)));
                            }
                            if want_emit_path.is_some() && e.emit_path != want_emit_path {
                                return Err(ctx(format!("emit_to_string_with_path differs: {:?} vs {:?}", e.emit_path, want_emit_path)));
                            }
                            if want_emit.is_some() && !e.emit_stderr_ok {
                                return Err(ctx("emit_to_stderr panicked".to_string()));
                            }
                            Ok(())
                        }
                        other => Err(ctx(format!("the validator rejects this module ({want_inner}) but with validation on the call returned {}", other.brief()))),
                    }
                }
                Ok(_) => {
                    stats.class("ref_accepts_compared");
                    stats.nontrivial_case(key);
                    match (&off, &on) {
                        (Outcome::Ok(a), Outcome::Ok(b)) => {
                            stats.class("accepted_ok_both");
                            if a != b {
                                return Err(ctx("enabling validation changed the generated text".to_string()));
                            }
                            Ok(())
                        }
                        (Outcome::Err(a), Outcome::Err(b)) => {
                            if a.kind != b.kind || a.display != b.display {
                                return Err(ctx(format!("enabling validation changed the error: {:?} vs {:?}", a, b)));
                            }
                            Ok(())
                        }
                        (Outcome::Panic(m), Outcome::Panic(_)) => {
                            stats.sut_panic += 1;
                            stats.class(&format!("panic_both:{}", m.chars().take(48).collect::<String>()));
                            Ok(())
                        }
                        (a, b) => Err(ctx(format!("the reference accepts this module, yet validation off gives {} and validation on gives {}", a.brief(), b.brief()))),
                    }
                }
            }
        }
    }
}

fn vjson(v: Validate) -> serde_json::Value {
    match v {
        Validate::Off => json!("off"),
        Validate::All => json!("all"),
        Validate::Default => json!("default"),
        Validate::Bits(b) => json!(b),
    }
}

pub fn vfrom(v: &serde_json::Value) -> Validate {
    match v {
        serde_json::Value::String(s) if s == "all" => Validate::All,
        serde_json::Value::String(s) if s == "default" => Validate::Default,
        serde_json::Value::Number(n) => Validate::Bits(n.as_u64().unwrap() as u32),
        _ => Validate::Off,
    }
}

pub fn eval_replay(sut: &dyn Sut, v: &serde_json::Value) -> Result<(), String> {
    let c = Case { text: v["text"].as_str().unwrap_or("").to_string(), validate: vfrom(&v["validate"]), label: "replay" };
    judge(sut, &c, &mut Stats::new())
}

pub fn run(sut: &dyn Sut, tier: Tier) -> ! {
    preflight::quiet_panics();
    let mut run = Run::new("C17", tier);
    run.rule = "a valid shader (structured generator output or a .wgsl fixture from /repo) is corrupted by 1-3 operations (truncate, delete/duplicate range, swap/replace/insert/delete token from a WGSL dictionary, bracket unbalancing, literal mangling, Unicode injection, appended parsable-but-invalid snippets) and fed with validation off and with a generated capability set; naga called directly on the same text is the reference. Non-trivial = the reference rejects the text (parse or validation) or the accepted-both comparison was performed; distinct by (text, capabilities).".to_string();
    run.assumptions = vec![
        "naga 24.0.0 parse_str / Validator (ValidationFlags::all) called by the harness is the reference front end".into(),
        "texts on which naga itself panics are skipped and counted (not attributable)".into(),
    ];
    run.canaries(&mut |v| eval_replay(sut, v));
    let fixtures = load_fixtures();
    let mut stats = Stats::new();
    stats.extra.insert("fixtures_loaded".into(), json!(fixtures.len()));
    let cases = tier.pick(12000, 200000);
    let seed = run.seed_for(1);
    let sut_ref = sut;
    // naga's recursive-descent parser and the generator's recursion need stack; run on a big-stack thread
    let result = std::thread::scope(|s| {
        std::thread::Builder::new()
            .stack_size(512 << 20)
            .spawn_scoped(s, || {
                let mut stats = Stats::new();
                let mut j = |choices: &[u32], st: &mut Stats| -> Result<(), String> {
                    let mut ch = Ch::new(choices);
                    let c = build_case(&mut ch, &fixtures);
                    let r = judge(sut_ref, &c, st);
                    if r.is_ok() {
                        st.sample(|| json!({"validate": vjson(c.validate), "corruption": c.label, "text": c.text}));
                    }
                    r
                };
                let f = run_inprocess(seed, cases, (32, 300), &mut stats, &mut j);
                (stats, f)
            })
            .unwrap()
            .join()
            .unwrap()
    });
    let (st, f) = result;
    let extra = std::mem::take(&mut stats.extra);
    stats = st;
    stats.extra.extend(extra);
    if let Some(f) = f {
        let mut ch = Ch::new(&f.choices);
        let c = build_case(&mut ch, &fixtures);
        run.violation(json!({"kind": "c17", "text": c.text, "validate": vjson(c.validate), "choices": f.choices}), &f.message);
        run.finish(&stats);
    }
    if tier == Tier::Thorough {
        fuzz_campaigns(&mut run, &mut stats, &fixtures);
    }
    run.finish(&stats)
}

/// decode a libFuzzer input exactly like fuzz/fuzz_targets/c17.rs does
pub fn decode_fuzz_input(data: &[u8]) -> Option<Case> {
    if data.is_empty() {
        return None;
    }
    let text = std::str::from_utf8(&data[1..]).ok()?;
    let validate = match data[0] % 4 {
        0 => Validate::All,
        1 => Validate::Default,
        2 => Validate::Bits(u32::from_le_bytes([data[0], data.get(1).copied().unwrap_or(0), data.get(2).copied().unwrap_or(0), data.get(3).copied().unwrap_or(0)])),
        _ => Validate::Bits(0),
    };
    Some(Case { text: text.to_string(), validate, label: "fuzz" })
}

/// worker child: judge one text (crash isolation when re-evaluating a fuzzer artifact)
pub fn worker_judge(sut: &dyn Sut, req: &serde_json::Value) -> ! {
    let c = Case { text: req["text"].as_str().unwrap_or("").to_string(), validate: vfrom(&req["validate"]), label: "fuzz" };
    let r = std::thread::scope(|s| std::thread::Builder::new().stack_size(1 << 30).spawn_scoped(s, || judge(sut, &c, &mut Stats::new())).unwrap().join());
    let v = match r {
        Ok(Ok(())) => json!({"ok": true}),
        Ok(Err(m)) => json!({"ok": false, "message": m}),
        Err(_) => json!({"ok": true, "note": "judge thread panicked"}),
    };
    println!("{v}");
    std::process::exit(0)
}

fn fuzz_campaigns(run: &mut Run, stats: &mut Stats, fixtures: &[String]) {
    let base = std::path::Path::new(VERIF_DIR).join("work/fuzz");
    let _ = std::fs::remove_dir_all(&base);
    let corpus = base.join("corpus_seeded");
    let empty = base.join("corpus_empty");
    let artifacts = base.join("artifacts");
    for d in [&corpus, &empty, &artifacts] {
        std::fs::create_dir_all(d).expect("fuzz dirs");
    }
    // seed corpus: repository fixtures and generated shaders, with each flag byte
    let mut n = 0;
    for (i, f) in fixtures.iter().enumerate() {
        for flag in 0u8..3 {
            let mut b = vec![flag];
            b.extend_from_slice(f.as_bytes());
            std::fs::write(corpus.join(format!("fixture_{i}_{flag}")), b).unwrap();
            n += 1;
        }
    }
    let (_r, sampled) = sample(run.seed_for(77), 120, (64, 400));
    for (i, t) in sampled.trees.iter().enumerate() {
        let c = t.current();
        let mut ch = Ch::new(&c);
        let case = build_case(&mut ch, fixtures);
        let mut b = vec![(i % 3) as u8];
        b.extend_from_slice(case.text.as_bytes());
        std::fs::write(corpus.join(format!("gen_{i}")), b).unwrap();
        n += 1;
    }
    stats.extra.insert("fuzz_seed_corpus_files".into(), json!(n));
    let seed = (run.seed % 0x7fff_ffff).max(1);
    let mut total_execs = 0u64;
    for (name, dir, runs) in [("seeded", &corpus, 600_000u64), ("empty", &empty, 200_000u64)] {
        let out = std::process::Command::new("cargo")
            .current_dir(format!("{VERIF_DIR}/harness"))
            .env("CARGO_NET_OFFLINE", "true")
            .args(["+nightly", "fuzz", "run", "-s", "none", "--no-cfg-fuzzing", "c17"])
            .arg(dir)
            .arg("--")
            .arg(format!("-runs={runs}"))
            .arg(format!("-seed={seed}"))
            .arg(format!("-dict={VERIF_DIR}/harness/fuzz/wgsl.dict"))
            .args(["-len_control=0", "-max_len=4096", "-timeout=60", "-rss_limit_mb=6144", "-print_final_stats=1"])
            .arg(format!("-artifact_prefix={}/", artifacts.display()))
            .output();
        let out = match out {
            Ok(o) => o,
            Err(e) => {
                eprintln!("cannot run cargo fuzz: {e}");
                std::process::exit(2);
            }
        };
        let err = String::from_utf8_lossy(&out.stderr);
        let execs = err.lines().find_map(|l| l.strip_prefix("stat::number_of_executed_units:").and_then(|x| x.trim().parse::<u64>().ok())).unwrap_or(0);
        total_execs += execs;
        stats.extra.insert(format!("fuzz_{name}_execs"), json!(execs));
        let cov = err.lines().rev().find(|l| l.contains(" cov: ")).map(|l| l.trim().to_string()).unwrap_or_default();
        stats.extra.insert(format!("fuzz_{name}_last_status"), json!(cov));
        if !out.status.success() {
            // an artifact was written: re-judge it in a crash-isolated worker
            let mut arts: Vec<_> = std::fs::read_dir(&artifacts).map(|rd| rd.flatten().map(|e| e.path()).collect()).unwrap_or_default();
            arts.sort();
            let Some(a) = arts.first() else {
                eprintln!("cargo fuzz failed without an artifact:\n{}", err.chars().rev().take(3000).collect::<String>().chars().rev().collect::<String>());
                std::process::exit(2);
            };
            let data = std::fs::read(a).unwrap_or_default();
            let Some(c) = decode_fuzz_input(&data) else {
                eprintln!("fuzz artifact {} does not decode", a.display());
                std::process::exit(2);
            };
            let req = json!({"text": c.text, "validate": vjson(c.validate)});
            let r = crate::worker::run_child(&crate::worker::ChildSpec { cmd: "c17judge", request: &req, env_clear: false, env: vec![], cwd: None, cpu_limit_s: 300, wall_limit_s: 600.0 });
            match r.response {
                Some(v) if v["ok"] == json!(false) => {
                    let m = v["message"].as_str().unwrap_or("fuzz violation").to_string();
                    run.violation(json!({"kind": "c17", "text": c.text, "validate": vjson(c.validate), "found_by": format!("libFuzzer ({name} corpus)")}), &m);
                    return;
                }
                _ => {
                    eprintln!("libFuzzer stopped on an input that is not a C17 violation when re-judged (timeout, OOM or a crash inside naga): inconclusive. artifact {}", a.display());
                    std::process::exit(2);
                }
            }
        }
    }
    stats.evaluations += total_execs;
    stats.extra.insert("fuzz_total_execs".into(), json!(total_execs));
}
