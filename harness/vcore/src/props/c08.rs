//! C08 — exactly the host-visible structs are emitted, once each.

use crate::chooser::{hash_str, Ch};
use crate::engine::*;
use crate::exec::*;
use crate::expect;
use crate::gen::{gen_shader, Profile, TyProfile};
use crate::layout::Repr;
use crate::model::*;
use crate::outread;
use crate::preflight;
use crate::render::render;
use crate::sut::*;
use serde_json::{json, Value};
use std::collections::BTreeMap;
use std::fmt::Write;

pub struct C08;

pub fn profile() -> Profile {
    let mut p = Profile::base();
    p.host_structs = (1, 6);
    p.members = (1, 3);
    p.ty = TyProfile::full();
    p.ty.f64_ = false;
    p.ty.bools = true;
    p.groups = (0, 3);
    p.bindings = (1, 3);
    p.w_buf = 8;
    p.w_tex = 1;
    p.w_samp = 0;
    p.w_stex = 0;
    p.funcs = (0, 2);
    p.stmts = (0, 1);
    p.entries = [(0, 2), (0, 2), (0, 2)];
    p.io_structs = true;
    p.vertex_struct_params = (0, 2);
    p.push = 2;
    p.private = 3;
    p.workgroup = 3;
    p.unused_structs = (0, 3);
    p.vin_as_storage = 2;
    p.out_as_storage = 2;
    p.overrides = 3;
    p.ov_sized_array = 5;
    p.struct_helpers = 3;
    p
}

const GENERATED_NAMES: [&str; 3] = ["VertexEntry", "FragmentEntry", "OverrideConstants"];

/// the roles a struct plays (for the histogram and the non-triviality rule)
pub fn roles(sh: &Shader) -> BTreeMap<usize, Vec<&'static str>> {
    let mut m: BTreeMap<usize, Vec<&'static str>> = BTreeMap::new();
    let mut add = |i: usize, r: &'static str| {
        let v = m.entry(i).or_default();
        if !v.contains(&r) {
            v.push(r)
        }
    };
    for g in &sh.globals {
        if let GKind::Buf { space, ty } = &g.kind {
            let r = match space {
                Space::Uniform => "uniform",
                Space::StorageR | Space::StorageRW => "storage",
                Space::Private => "private",
                Space::Workgroup => "workgroup",
                Space::Push => "push_constant",
            };
            let mut v = Vec::new();
            ty.contains_struct(&mut v, &sh.structs);
            for (k, s) in v.iter().enumerate() {
                add(*s, if k == 0 && matches!(ty, Ty::St(_)) { r } else { "nested_or_element" });
            }
        }
    }
    for e in &sh.entries {
        for p in &e.params {
            if let EParam::Struct { st, .. } = p {
                add(*st, match e.stage {
                    Stage::Vertex => "vertex_input",
                    Stage::Fragment => "fragment_input",
                    Stage::Compute => "compute_input",
                });
            }
        }
        if let EResult::Struct(i) = &e.result {
            add(*i, "entry_result");
        }
    }
    for f in &sh.funcs {
        walk_stmts(
            &f.body,
            &mut |s, _| {
                if let Stmt::Raw(t) = s {
                    for (i, sd) in sh.structs.iter().enumerate() {
                        if t.contains(&format!(": {};", sd.name)) {
                            add(i, "function_local");
                        }
                    }
                }
            },
            0,
        );
    }
    for i in 0..sh.structs.len() {
        m.entry(i).or_insert_with(|| vec!["unused"]);
    }
    m
}

fn nontrivial(sh: &Shader) -> bool {
    let r = roles(sh);
    let distinct: std::collections::BTreeSet<&str> = r.values().flatten().copied().collect();
    let emitted = expect::emitted_structs(sh);
    sh.structs.len() >= 4 && distinct.len() >= 3 && emitted.len() < sh.structs.len()
}

pub fn judge_names(sh: &Shader, got: &[String], wgsl: &str) -> Result<(), String> {
    let want: std::collections::BTreeSet<String> = expect::emitted_structs(sh).iter().map(|i| sh.structs[*i].name.clone()).collect();
    let mut counts: BTreeMap<&str, usize> = BTreeMap::new();
    for n in got {
        if !GENERATED_NAMES.contains(&n.as_str()) {
            *counts.entry(n.as_str()).or_insert(0) += 1;
        }
    }
    let r = roles(sh);
    let role_of = |name: &str| sh.structs.iter().position(|s| s.name == name).map(|i| r[&i].join("+")).unwrap_or_default();
    for (n, c) in &counts {
        if *c > 1 {
            return Err(format!("struct `{n}` is emitted {c} times\n{wgsl}"));
        }
        if !want.contains(*n) {
            return Err(format!("struct `{n}` (roles: {}) is emitted although no host program has to fill it\n{wgsl}", role_of(n)));
        }
    }
    for n in &want {
        if !counts.contains_key(n.as_str()) {
            return Err(format!("struct `{n}` (roles: {}) must be emitted but is missing\n{wgsl}", role_of(n)));
        }
    }
    Ok(())
}

fn build_case(choices: &[u32]) -> Option<(Shader, String, Opts)> {
    let mut ch = Ch::new(choices);
    let sh = gen_shader(&mut ch, &profile());
    let wgsl = render(&sh);
    // bool/rt-array combinations that cannot compile are irrelevant for the wide width, but the
    // documented panics must be avoided: encase on whenever a runtime array is emitted
    let needs_encase = expect::emitted_structs(&sh).iter().any(|i| expect::ends_in_rt_array(&sh.structs[*i]));
    let opts = Opts { encase_host: needs_encase, repr: Repr::Rust, ..Opts::default() };
    Some((sh, wgsl, opts))
}

pub fn judge_wide(sut: &dyn Sut, choices: &[u32], stats: &mut Stats) -> Result<(), String> {
    let Some((sh, wgsl, opts)) = build_case(choices) else { return Ok(()) };
    if preflight::preflight(&wgsl).is_err() {
        stats.generator_invalid += 1;
        return Ok(());
    }
    let text = match sut.generate(&wgsl, None, &opts) {
        Outcome::Ok(t) => t,
        Outcome::Panic(m) => {
            stats.sut_panic += 1;
            stats.class(&format!("sut_panic:{}", m.chars().take(40).collect::<String>()));
            return Ok(());
        }
        Outcome::Err(e) => {
            stats.skip(&format!("sut_err_{:?}", e.kind));
            return Ok(());
        }
    };
    stats.evaluations += 1;
    for v in roles(&sh).values() {
        for r in v {
            stats.class(&format!("role_{r}"));
        }
        stats.class_if(v.len() >= 2, "struct_with_several_roles");
        stats.class_if(v.contains(&"entry_result") && v.iter().any(|r| r.ends_with("_input")), "result_and_input");
    }
    if nontrivial(&sh) {
        stats.nontrivial_case(hash_str(&wgsl));
    }
    let out = outread::read(&text)?;
    let got: Vec<String> = out.structs.iter().map(|s| s.name.clone()).collect();
    stats.sample(|| json!({"wgsl": wgsl, "expected_structs": expect::emitted_structs(&sh).iter().map(|i| sh.structs[*i].name.clone()).collect::<Vec<_>>()}));
    judge_names(&sh, &got, &wgsl)
}

impl ExecProp for C08 {
    fn id(&self) -> &'static str {
        "C08"
    }
    fn build(&self, choices: &[u32], _stats: &mut Stats) -> Option<Built> {
        let (sh, wgsl, _) = build_case(choices)?;
        let opts = expect::plain_opts(&sh)?;
        Some(Built { sh, wgsl, include_path: None, opts, extra: Value::Null, files: vec![] })
    }
    fn probe_src(&self, b: &Built) -> String {
        // naming every expected struct makes a missing one a compile error; a duplicate definition
        // is a compile error in the module itself
        let mut s = String::from("use super::*;\nuse serde_json::json;\npub fn probe() -> serde_json::Value {\n    let mut n = 0usize;\n");
        for i in expect::emitted_structs(&b.sh) {
            writeln!(s, "    {{ let _x: Option<CASEMOD::{}> = None; n += 1; }}", expect::rid(&b.sh.structs[i].name)).unwrap();
        }
        s.push_str("    json!({\"named\": n})\n}\n");
        s
    }
    fn observes_item(&self, kind: &str, _name: &str) -> bool {
        kind == "struct"
    }
    fn judge(&self, b: &Built, text: &str, _obs: &Value, _stats: &mut Stats) -> Verdict {
        let out = match outread::read(text) {
            Ok(o) => o,
            Err(e) => return Verdict::Violation(e),
        };
        let got: Vec<String> = out.structs.iter().map(|s| s.name.clone()).collect();
        match judge_names(&b.sh, &got, &b.wgsl) {
            Ok(()) => Verdict::Ok,
            Err(m) => Verdict::Violation(m),
        }
    }
    fn nontrivial(&self, b: &Built) -> bool {
        nontrivial(&b.sh)
    }
    fn classes(&self, _b: &Built, stats: &mut Stats) {
        stats.class("executed_width");
    }
}

pub fn eval_replay(sut: &dyn Sut, v: &Value) -> Result<(), String> {
    eval_replay_exec(&C08, sut, v)
}

pub fn run(sut: &dyn Sut, tier: Tier) -> ! {
    preflight::quiet_panics();
    let mut run = Run::new("C08", tier);
    run.rule = "generated shaders in which structs take every role: type of a uniform / storage / private / workgroup / push-constant variable, nested member, array and runtime-array element, parameter of a vertex / fragment / compute entry, entry result, vertex output reused as fragment input, function-local only, unused; many variables and entries share structs. expected: emitted iff reachable from a module-scope variable's type or (entry parameter and not an entry result), computed on the AST. Wide width: the multiset of top-level `pub struct` names read with syn, compared both ways with multiplicity 1; executed width: every expected struct is named in a compiled probe (missing or duplicate = rustc error). Non-trivial = >= 4 structs with >= 3 different roles and at least one struct that must not be emitted; distinct by wgsl.".to_string();
    let mut stats = Stats::new();
    run.canaries(&mut |v| eval_replay(sut, v));
    let cases = tier.pick(5000, 150000);
    let mut j = |choices: &[u32], st: &mut Stats| judge_wide(sut, choices, st);
    let mut found = run_inprocess(run.seed_for(1), cases, (150, 800), &mut stats, &mut j);
    if found.is_none() && tier == Tier::Thorough {
        // coverage-guided search over the same choice sequences (libFuzzer, oracle in the target)
        found = fuzz_choices(&run, &mut stats, (150, 800), 300, 12, 8_000, &mut j);
    }
    if let Some(f) = found {
        let mut st = Stats::new();
        let body = match C08.build(&f.choices, &mut st) {
            Some(b) => case_json(&b, &f.choices, None),
            None => json!({"choices": f.choices}),
        };
        run.violation(body, &f.message);
        run.finish(&stats);
    }
    let n = tier.pick(80, 800);
    run_round(&C08, sut, &mut run, &mut stats, 100, n, (150, 800));
    stats.check_health("C08");
    run.finish(&stats)
}
