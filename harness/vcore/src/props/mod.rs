use crate::engine::Tier;
use crate::sut::Sut;

pub mod c01;
pub mod c02;
pub mod c03;
pub mod c04;
pub mod c05;
pub mod c06;
pub mod c07;
pub mod c08;
pub mod c09;
pub mod c10;
pub mod c11;
pub mod c12;
pub mod c13;
pub mod c14;
pub mod c15;
pub mod c16;
pub mod c17;
pub mod c18;
pub mod c19;
pub mod c20;
pub mod layouts;

macro_rules! dispatch {
    ($($id:literal => $m:ident),* $(,)?) => {
        pub fn run(sut: &dyn Sut, prop: &str, tier: Tier) -> ! {
            let _ = crate::probe::WS_SUFFIX.set(tier.name()[..1].to_string());
            match prop {
                $($id => $m::run(sut, tier),)*
                _ => {
                    eprintln!("no check for property {prop}");
                    std::process::exit(2)
                }
            }
        }
        pub fn replay(sut: &dyn Sut, prop: &str, path: &str) -> ! {
            crate::preflight::quiet_panics();
            let _ = crate::probe::WS_SUFFIX.set("r".to_string());
            let v = crate::engine::read_json(path);
            let r = match prop {
                $($id => $m::eval_replay(sut, &v),)*
                _ => {
                    eprintln!("no check for property {prop}");
                    std::process::exit(2)
                }
            };
            match r {
                Ok(()) => {
                    println!("replay {path}: property {prop} holds on this input");
                    std::process::exit(0)
                }
                Err(m) => {
                    println!("VIOLATION property={prop} replay={path}");
                    println!("{m}");
                    std::process::exit(1)
                }
            }
        }
    };
}

dispatch! {
    "C01" => c01,
    "C02" => c02,
    "C03" => c03,
    "C04" => c04,
    "C05" => c05,
    "C06" => c06,
    "C07" => c07,
    "C08" => c08,
    "C09" => c09,
    "C10" => c10,
    "C11" => c11,
    "C12" => c12,
    "C13" => c13,
    "C14" => c14,
    "C15" => c15,
    "C16" => c16,
    "C17" => c17,
    "C18" => c18,
    "C19" => c19,
    "C20" => c20,
}
