use crate::engine::Tier;
use crate::sut::Sut;

pub mod c11;

pub fn run(sut: &dyn Sut, prop: &str, tier: Tier) -> ! {
    match prop {
        "C11" => c11::run(sut, tier),
        _ => {
            eprintln!("no check for property {prop}");
            std::process::exit(2)
        }
    }
}

pub fn replay(sut: &dyn Sut, prop: &str, path: &str) -> ! {
    match prop {
        "C11" => c11::replay(sut, path),
        _ => {
            eprintln!("no check for property {prop}");
            std::process::exit(2)
        }
    }
}
