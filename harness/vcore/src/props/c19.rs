//! C19 — formatter choice and formatter failure never change the program.
//! The generator runs in a worker child whose PATH resolves `rustfmt` to a fault-injecting stub.

use crate::chooser::{hash_str, Ch};
use crate::engine::*;
use crate::gen::{gen_shader, Profile};
use crate::outread::norm_tokens;
use crate::render::render;
use crate::sut::*;
use crate::worker::*;
use serde_json::{json, Value};

pub const FAULTS: [&str; 21] = [
    "absent",
    "pass",
    "slow_pass",
    "fail_after_read",
    "fail_no_read",
    "fail_partial_read",
    "kill_before_read",
    "kill_after_read",
    "empty_ok",
    "empty_ok_no_read",
    "slow_fail",
    "close_stdin_then_fail",
    "partial_out_kill",
    "partial_out_fail",
    "partial_out_term",
    "stub_ok_no_read",
    // a `rustfmt` is found on the PATH but cannot be started
    "spawn_noexec",
    "spawn_isdir",
    "spawn_badinterp",
    "spawn_garbage",
    // exit 0 after reading everything, printing white space only
    "blank_ok",
];

pub const WATCHDOG_S: f64 = 20.0;

fn real_rustfmt() -> Option<String> {
    if let Ok(p) = std::env::var("VERIF_REAL_RUSTFMT") {
        return Some(p);
    }
    for cmd in [vec!["rustup", "which", "rustfmt"], vec!["which", "rustfmt"]] {
        if let Ok(o) = std::process::Command::new(cmd[0]).args(&cmd[1..]).output() {
            if o.status.success() {
                let p = String::from_utf8_lossy(&o.stdout).trim().to_string();
                if !p.is_empty() && std::path::Path::new(&p).exists() {
                    return Some(p);
                }
            }
        }
    }
    None
}

pub struct Env {
    pub real: Option<String>,
}

fn child_env(fault: &str, env: &Env) -> Vec<(String, String)> {
    let path = match fault {
        "absent" => format!("{VERIF_DIR}/stubs/empty"),
        // mode 0644 file / directory / script with a missing interpreter / executable that is no program
        "spawn_noexec" => format!("{VERIF_DIR}/stubs/noexec"),
        "spawn_isdir" => format!("{VERIF_DIR}/stubs/isdir"),
        "spawn_badinterp" => format!("{VERIF_DIR}/stubs/badinterp"),
        "spawn_garbage" => format!("{VERIF_DIR}/stubs/garbage"),
        _ => format!("{VERIF_DIR}/stubs/fmt"),
    };
    let mut v = vec![("PATH".to_string(), path), ("VERIF_FMT_MODE".to_string(), fault.to_string())];
    if let Some(r) = &env.real {
        v.push(("VERIF_REAL_RUSTFMT".to_string(), r.clone()));
        // the real formatter is a toolchain binary; give it what rustup-less execution needs
        v.push(("HOME".to_string(), std::env::var("HOME").unwrap_or_else(|_| "/root".into())));
    }
    v
}

#[derive(Clone, Debug)]
pub struct Case {
    pub wgsl: String,
    pub opts: Opts,
    pub fault: String,
}

pub fn shader_for(ch: &mut Ch, large: bool) -> String {
    let mut p = Profile::base();
    p.overrides = 3;
    p.wg_override = 4;
    p.ov_sized_array = 3;
    p.struct_helpers = 2;
    p.nonascii = 0;
    if large {
        p.host_structs = (10, 14);
        p.members = (6, 10);
        // the formatter's input (the unformatted token string) must exceed the 64 KiB pipe capacity
        // with a margin: 7 groups of 24..30 bindings give 100..130 KiB
        p.groups = (7, 7);
        p.bindings = (24, 30);
        p.entries = [(1, 2), (1, 2), (1, 2)];
        p.funcs = (1, 2);
        p.stmts = (1, 2);
        p.ty.atomic = false;
    } else {
        p.host_structs = (0, 2);
        p.groups = (0, 2);
        p.bindings = (1, 3);
        p.funcs = (0, 1);
        p.stmts = (0, 2);
        p.ty.atomic = false;
    }
    let mut sh = gen_shader(ch, &p);
    // text that looks like the separators of a stringified token stream ends up inside the SOURCE
    // literal: whatever is done to the formatter's output must not reach into string literals
    if ch.chance(5, 8) {
        let pays = crate::props::c16::TOKEN_BOUNDARY_PAYLOADS;
        let n = ch.usize_range(1, 4);
        for _ in 0..n {
            let a = *ch.pick(&pays[..]);
            let b = *ch.pick(&["pub const SOURCE : & str =", "return color ;", "vec4 < f32 > ( 1.0 , 2.0 ) ;", "# [ repr ( C ) ]", "} ;"]);
            sh.prologue.push_str(&format!("// {a}{b}{a}\n"));
        }
    }
    render(&sh)
}

/// Ok(class info) / Err(violation). `reference` is the rustfmt:false output computed in-process.
pub fn judge(sut: &dyn Sut, c: &Case, env: &Env, stats: &mut Stats) -> Result<(), String> {
    let mut ref_opts = c.opts;
    ref_opts.rustfmt = false;
    let reference = match sut.generate(&c.wgsl, None, &ref_opts) {
        Outcome::Ok(t) => t,
        other => {
            stats.skip(&format!("reference_not_ok:{}", other.brief().chars().take(40).collect::<String>()));
            return Ok(());
        }
    };
    let ref_tokens = norm_tokens(&reference).map_err(|e| format!("the unformatted output does not tokenise: {e}"))?;
    if c.fault == "pass" || c.fault == "slow_pass" {
        if env.real.is_none() {
            stats.skip("no_real_rustfmt");
            return Ok(());
        }
    }
    // what the generator writes to the formatter is the unformatted token string, shorter than the
    // pretty-printed reference; the same tokens printed by proc-macro2 have (about) that length
    crate::outread::reset_span_map();
    let written_len = reference.parse::<proc_macro2::TokenStream>().map(|t| t.to_string().len()).unwrap_or(0);
    // default pipe capacity is 64 KiB
    if std::env::var("VERIF_DEBUG_C19").is_ok() { eprintln!("C19 debug: reference {} written {}", reference.len(), written_len); }
    let large = written_len > 80 * 1024;
    if c.fault == "stub_ok_no_read" && !large {
        // a formatter that exits 0 with plausible output without reading: below the pipe buffer the
        // write succeeds and nothing distinguishes it from a working formatter (not decidable)
        stats.skip("stub_ok_no_read_below_pipe_buffer");
        return Ok(());
    }
    let mut o = c.opts;
    o.rustfmt = true;
    let req = gen_request(&c.wgsl, None, &o);
    let r = run_child(&ChildSpec { cmd: "gen", request: &req, env_clear: true, env: child_env(&c.fault, env), cwd: Some(std::path::Path::new("/")), cpu_limit_s: 60, wall_limit_s: WATCHDOG_S });
    stats.evaluations += 1;
    stats.class(&format!("fault:{}", c.fault));
    stats.class(if large { "formatter_input>80KiB" } else if written_len > 64 * 1024 { "formatter_input_64..80KiB" } else { "formatter_input<=64KiB" });
    if !(c.fault == "pass") || large {
        stats.nontrivial_case(hash_str(&format!("{}|{}|{}", c.wgsl, c.fault, c.opts.short())));
    }
    let ctx = || format!("fault={} unformatted_output_bytes={} formatter_input_bytes~{} opts={}\n--- source ---\n{}", c.fault, reference.len(), written_len, c.opts.short(), c.wgsl);
    if r.killed_by_watchdog {
        let cpu = r.cpu_s_at_end.unwrap_or(0.0);
        if cpu < 1.0 {
            return Err(format!("generation hung: the worker was still blocked after {WATCHDOG_S}s wall clock having used {cpu:.2}s CPU\n{}", ctx()));
        }
        eprintln!("C19: watchdog fired on a busy worker ({cpu:.1}s CPU): inconclusive");
        std::process::exit(2);
    }
    let Some(resp) = &r.response else {
        return Err(format!("the generator process died without a result (exit {:?}, signal {:?}) stderr: {}\n{}", r.exit_code, r.signal, r.stderr, ctx()));
    };
    let out = woutcome_from_json(&resp["outcome"]).ok_or("bad worker response")?;
    match out {
        WOutcome::Ok(text) => {
            let toks = match norm_tokens(&text) {
                Ok(t) => t,
                Err(e) => return Err(format!("the returned text does not tokenise as Rust ({e}); {} bytes\n{}", text.len(), ctx())),
            };
            if toks != ref_tokens {
                let i = toks.iter().zip(ref_tokens.iter()).position(|(a, b)| a != b).unwrap_or(toks.len().min(ref_tokens.len()));
                let show = |t: &Vec<String>| t[i.saturating_sub(6)..(i + 6).min(t.len())].join(" ");
                return Err(format!(
                    "the text returned with rustfmt on is not the same token sequence as with rustfmt off: {} vs {} tokens (returned {} bytes); first difference at token {i}:\n  on : {}\n  off: {}\n{}",
                    toks.len(),
                    ref_tokens.len(),
                    text.len(),
                    show(&toks),
                    show(&ref_tokens),
                    ctx()
                ));
            }
            // the result must also be a syntactically valid file
            if let Err(e) = syn::parse_file(&text) {
                return Err(format!("the returned text is not a Rust file: {e}\n{}", ctx()));
            }
            Ok(())
        }
        other => Err(format!("generation with rustfmt on returned {} where rustfmt off returns Ok\n{}", other.brief(), ctx())),
    }
}

fn case_json(c: &Case, choices: Option<&[u32]>) -> Value {
    json!({"kind": "c19", "wgsl": c.wgsl, "opts": opts_to_json(&c.opts), "fault": c.fault, "choices": choices, "repeat": 20})
}

pub fn eval_replay(sut: &dyn Sut, v: &Value) -> Result<(), String> {
    let env = Env { real: real_rustfmt() };
    let c = Case { wgsl: v["wgsl"].as_str().unwrap_or("").to_string(), opts: opts_from_json(&v["opts"]), fault: v["fault"].as_str().unwrap_or("pass").to_string() };
    // timing-dependent faults: repeat
    let n = v["repeat"].as_u64().unwrap_or(20);
    for _ in 0..n {
        judge(sut, &c, &env, &mut Stats::new())?;
    }
    Ok(())
}

pub fn run(sut: &dyn Sut, tier: Tier) -> ! {
    crate::preflight::quiet_panics();
    let mut run = Run::new("C19", tier);
    run.level = "fault_enumeration";
    run.rule = format!("faults {FAULTS:?} x two output size classes (below / well above the 64 KiB pipe buffer) x generated shaders x option sets; every fault additionally repeated on one small and one large shader to sample the exit-versus-write race. The generator runs in a child whose PATH contains only the stub formatter; its result must be Ok and token-identical (trailing-comma / block-semicolon normalisation only) to the in-process rustfmt:false output, and parse as a Rust file. Non-trivial = fault other than plain pass-through, or formatter input above 80 KiB; distinct by (source, fault, options).");
    run.assumptions = vec![
        "token identity is judged with proc-macro2 after dropping trailing commas before closing delimiters and semicolons directly after a closing brace".into(),
        format!("a hang is a worker that is still blocked after {WATCHDOG_S}s wall clock having used < 1s CPU; any other watchdog event is inconclusive (exit 2)"),
    ];
    let env = Env { real: real_rustfmt() };
    let mut stats = Stats::new();
    stats.extra.insert("real_rustfmt".into(), json!(env.real));
    run.canaries(&mut |v| eval_replay(sut, v));
    let n_shaders = tier.pick(6, 60);
    let repeats = tier.pick(10, 40);
    let (_r, sampled) = sample(run.seed_for(1), n_shaders * 2, (300, 1500));
    let mut cases: Vec<(Case, Vec<u32>)> = Vec::new();
    for (i, t) in sampled.trees.iter().enumerate() {
        let choices = t.current();
        let mut ch = Ch::new(&choices);
        let large = i % 2 == 1;
        let bits = ch.below(16);
        let repr = *ch.pick(&[crate::layout::Repr::Rust, crate::layout::Repr::Glam]);
        let mut opts = Opts::from_bits(bits | 4, repr); // encase on: runtime arrays are allowed
        opts.bytemuck_host = false;
        opts.bytemuck_vertex = false;
        let wgsl = shader_for(&mut ch, large);
        for f in FAULTS {
            cases.push((Case { wgsl: wgsl.clone(), opts, fault: f.to_string() }, choices.clone()));
        }
        if i < 2 {
            for f in FAULTS {
                for _ in 0..repeats {
                    cases.push((Case { wgsl: wgsl.clone(), opts, fault: f.to_string() }, choices.clone()));
                }
            }
        }
    }
    let nthreads = 8;
    let results: Vec<(usize, Result<(), String>, Stats)> = std::thread::scope(|s| {
        let hs: Vec<_> = (0..nthreads)
            .map(|k| {
                let cases = &cases;
                let env = &env;
                s.spawn(move || {
                    let mut out = Vec::new();
                    for i in (0..cases.len()).filter(|i| i % nthreads == k) {
                        let mut st = Stats::new();
                        let r = judge(sut, &cases[i].0, env, &mut st);
                        out.push((i, r, st));
                    }
                    out
                })
            })
            .collect();
        let mut all: Vec<_> = hs.into_iter().flat_map(|h| h.join().unwrap()).collect();
        all.sort_by_key(|x| x.0);
        all
    });
    let mut reported: Vec<String> = Vec::new();
    for (i, r, st) in results {
        stats.evaluations += st.evaluations;
        for h in st.nontrivial {
            stats.nontrivial.insert(h);
        }
        for (k, v) in st.classes {
            *stats.classes.entry(k).or_insert(0) += v;
        }
        for (k, v) in st.skipped {
            *stats.skipped.entry(k).or_insert(0) += v;
        }
        if i % 29 == 0 {
            let c = &cases[i].0;
            stats.sample(|| json!({"fault": c.fault, "opts": c.opts.short(), "wgsl_bytes": c.wgsl.len(), "wgsl_head": c.wgsl.chars().take(400).collect::<String>()}));
        }
        if let Err(m) = r {
            // one report per fault kind (root cause granularity), the rest are duplicates
            let c = &cases[i].0;
            if !reported.contains(&c.fault) {
                reported.push(c.fault.clone());
                run.violation(case_json(c, Some(&cases[i].1)), &m);
            }
        }
    }
    run.finish(&stats)
}
