//! Worker child processes (crash / CPU-time / environment isolation). Filled in by C18/C19/C20.
use crate::sut::Sut;

pub fn worker_main(_sut: &dyn Sut, args: &[String]) -> ! {
    eprintln!("unknown worker command {args:?}");
    std::process::exit(2)
}
