//! Worker child processes: crash / CPU-time / environment / PATH isolation for C18, C19, C20.
//!
//! `vcheck worker gen` reads one JSON request on stdin
//!   {"wgsl": .., "include_path": null|str, "opts": {...}}
//! performs exactly one generator call and prints one JSON line
//!   {"outcome": {"t": "ok"|"err"|"panic", ...}, "cpu_s": f64}
//! `vcheck worker history` executes a list of operations (C18).

use crate::layout::Repr;
use crate::sut::*;
use serde_json::{json, Value};
use std::io::{Read, Write};
use std::os::unix::process::{CommandExt, ExitStatusExt};
use std::path::Path;
use std::process::{Command, Stdio};
use std::time::{Duration, Instant};

pub fn opts_to_json(o: &Opts) -> Value {
    json!({
        "bv": o.bytemuck_vertex, "bh": o.bytemuck_host, "en": o.encase_host, "se": o.serde,
        "repr": match o.repr { Repr::Rust => "rust", Repr::Glam => "glam", Repr::Nalgebra => "nalgebra" },
        "rustfmt": o.rustfmt,
        "validate": match o.validate { Validate::Off => json!("off"), Validate::All => json!("all"), Validate::Default => json!("default"), Validate::Bits(b) => json!(b) },
    })
}

pub fn opts_from_json(v: &Value) -> Opts {
    Opts {
        bytemuck_vertex: v["bv"].as_bool().unwrap_or(false),
        bytemuck_host: v["bh"].as_bool().unwrap_or(false),
        encase_host: v["en"].as_bool().unwrap_or(false),
        serde: v["se"].as_bool().unwrap_or(false),
        repr: match v["repr"].as_str() {
            Some("glam") => Repr::Glam,
            Some("nalgebra") => Repr::Nalgebra,
            _ => Repr::Rust,
        },
        rustfmt: v["rustfmt"].as_bool().unwrap_or(false),
        validate: match &v["validate"] {
            Value::String(s) if s == "all" => Validate::All,
            Value::String(s) if s == "default" => Validate::Default,
            Value::Number(n) => Validate::Bits(n.as_u64().unwrap_or(0) as u32),
            _ => Validate::Off,
        },
    }
}

pub fn outcome_to_json(o: &Outcome) -> Value {
    match o {
        Outcome::Ok(s) => json!({"t": "ok", "text": s}),
        Outcome::Err(e) => json!({"t": "err", "kind": format!("{:?}", e.kind), "display": e.display}),
        Outcome::Panic(m) => json!({"t": "panic", "msg": m}),
    }
}

/// Outcome as seen through the worker protocol (errors are reduced to kind + display).
#[derive(Clone, Debug, PartialEq, Eq)]
pub enum WOutcome {
    Ok(String),
    Err(String, String),
    Panic(String),
}

impl WOutcome {
    pub fn brief(&self) -> String {
        match self {
            WOutcome::Ok(s) => format!("Ok({} bytes)", s.len()),
            WOutcome::Err(k, d) => format!("Err({k}: {d})"),
            WOutcome::Panic(m) => format!("Panic({m})"),
        }
    }
    pub fn of(o: &Outcome) -> WOutcome {
        woutcome_from_json(&outcome_to_json(o)).unwrap()
    }
}

pub fn woutcome_from_json(v: &Value) -> Option<WOutcome> {
    match v["t"].as_str()? {
        "ok" => Some(WOutcome::Ok(v["text"].as_str()?.to_string())),
        "err" => Some(WOutcome::Err(v["kind"].as_str()?.to_string(), v["display"].as_str()?.to_string())),
        "panic" => Some(WOutcome::Panic(v["msg"].as_str()?.to_string())),
        _ => None,
    }
}

pub fn self_cpu_s() -> f64 {
    unsafe {
        let mut ru: libc::rusage = std::mem::zeroed();
        libc::getrusage(libc::RUSAGE_SELF, &mut ru);
        ru.ru_utime.tv_sec as f64 + ru.ru_utime.tv_usec as f64 * 1e-6 + ru.ru_stime.tv_sec as f64 + ru.ru_stime.tv_usec as f64 * 1e-6
    }
}

pub fn worker_main(sut: &dyn Sut, args: &[String]) -> ! {
    crate::preflight::quiet_panics();
    let mut input = String::new();
    std::io::stdin().read_to_string(&mut input).expect("stdin");
    let req: Value = serde_json::from_str(&input).expect("request json");
    match args.first().map(|s| s.as_str()) {
        Some("gen") => {
            let wgsl = req["wgsl"].as_str().unwrap_or("").to_string();
            let inc = req["include_path"].as_str().map(|s| s.to_string());
            let opts = opts_from_json(&req["opts"]);
            // run on a large stack so that deep (but legal) shaders do not overflow the default 8 MiB
            let t0 = self_cpu_s();
            let o = std::thread::scope(|s| {
                std::thread::Builder::new()
                    .stack_size(1 << 30)
                    .spawn_scoped(s, || sut.generate(&wgsl, inc.as_deref(), &opts))
                    .unwrap()
                    .join()
                    .unwrap_or_else(|_| Outcome::Panic("worker thread died".into()))
            });
            let cpu = self_cpu_s() - t0;
            let out = json!({"outcome": outcome_to_json(&o), "cpu_s": cpu});
            let mut so = std::io::stdout().lock();
            so.write_all(serde_json::to_string(&out).unwrap().as_bytes()).unwrap();
            so.write_all(b"\n").unwrap();
            so.flush().unwrap();
            std::process::exit(0)
        }
        Some("history") => crate::props::c18::worker_history(sut, &req),
        Some("c17judge") => crate::props::c17::worker_judge(sut, &req),
        _ => {
            eprintln!("unknown worker command {args:?}");
            std::process::exit(2)
        }
    }
}

#[derive(Debug)]
pub struct ChildResult {
    pub response: Option<Value>,
    pub exit_code: Option<i32>,
    pub signal: Option<i32>,
    pub wall_s: f64,
    /// CPU seconds (user+sys) of the child as read from /proc just before it was reaped/killed
    pub cpu_s_at_end: Option<f64>,
    pub killed_by_watchdog: bool,
    pub stderr: String,
}

fn proc_cpu_s(pid: u32) -> Option<f64> {
    let s = std::fs::read_to_string(format!("/proc/{pid}/stat")).ok()?;
    // fields after the ")" : state is field 3; utime field 14, stime 15 (1-based)
    let rest = &s[s.rfind(')')? + 2..];
    let f: Vec<&str> = rest.split_whitespace().collect();
    let ut: f64 = f.get(11)?.parse().ok()?;
    let st: f64 = f.get(12)?.parse().ok()?;
    let hz = unsafe { libc::sysconf(libc::_SC_CLK_TCK) } as f64;
    Some((ut + st) / hz)
}

pub struct ChildSpec<'a> {
    pub cmd: &'a str,
    pub request: &'a Value,
    pub env_clear: bool,
    pub env: Vec<(String, String)>,
    pub cwd: Option<&'a Path>,
    pub cpu_limit_s: u64,
    pub wall_limit_s: f64,
}

pub fn run_child(spec: &ChildSpec) -> ChildResult {
    let exe = std::env::current_exe().expect("current_exe");
    let mut c = Command::new(exe);
    c.arg("worker").arg(spec.cmd).stdin(Stdio::piped()).stdout(Stdio::piped()).stderr(Stdio::piped());
    if spec.env_clear {
        c.env_clear();
    }
    for (k, v) in &spec.env {
        c.env(k, v);
    }
    if let Some(d) = spec.cwd {
        c.current_dir(d);
    }
    let cpu = spec.cpu_limit_s;
    unsafe {
        c.pre_exec(move || {
            if cpu > 0 {
                let lim = libc::rlimit { rlim_cur: cpu, rlim_max: cpu + 1 };
                libc::setrlimit(libc::RLIMIT_CPU, &lim);
            }
            // own process group so a watchdog kill also reaches formatter grandchildren
            libc::setpgid(0, 0);
            Ok(())
        });
    }
    let start = Instant::now();
    let mut child = c.spawn().expect("spawn worker");
    let pid = child.id();
    {
        let mut stdin = child.stdin.take().unwrap();
        let _ = stdin.write_all(serde_json::to_string(spec.request).unwrap().as_bytes());
    }
    // read stdout/stderr on threads so a chatty child cannot block
    let mut so = child.stdout.take().unwrap();
    let mut se = child.stderr.take().unwrap();
    let t_out = std::thread::spawn(move || {
        let mut b = Vec::new();
        let _ = so.read_to_end(&mut b);
        b
    });
    let t_err = std::thread::spawn(move || {
        let mut b = Vec::new();
        let _ = se.read_to_end(&mut b);
        b
    });
    let mut killed = false;
    let mut cpu_at_end = None;
    let status = loop {
        match child.try_wait() {
            Ok(Some(st)) => break st,
            Ok(None) => {
                cpu_at_end = proc_cpu_s(pid).or(cpu_at_end);
                if start.elapsed().as_secs_f64() > spec.wall_limit_s {
                    killed = true;
                    unsafe {
                        libc::kill(-(pid as i32), libc::SIGKILL);
                    }
                    let _ = child.kill();
                    break child.wait().expect("wait");
                }
                std::thread::sleep(Duration::from_millis(2));
            }
            Err(e) => panic!("try_wait: {e}"),
        }
    };
    let out = t_out.join().unwrap_or_default();
    let err = t_err.join().unwrap_or_default();
    let response = String::from_utf8_lossy(&out).lines().rev().find_map(|l| serde_json::from_str::<Value>(l).ok());
    ChildResult {
        response,
        exit_code: status.code(),
        signal: status.signal(),
        wall_s: start.elapsed().as_secs_f64(),
        cpu_s_at_end: cpu_at_end,
        killed_by_watchdog: killed,
        stderr: String::from_utf8_lossy(&err).chars().take(2000).collect(),
    }
}

pub fn gen_request(wgsl: &str, include_path: Option<&str>, opts: &Opts) -> Value {
    json!({"wgsl": wgsl, "include_path": include_path, "opts": opts_to_json(opts)})
}
