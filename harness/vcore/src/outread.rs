//! "Wide width" reader: parses the generated Rust text with syn and extracts the syntactically
//! simple observations several properties need. Fail-open: any form it does not understand yields
//! `None`/`Unknown` and the caller defers to the compiled probe instead of judging.

use proc_macro2::TokenStream;
use quote::ToTokens;
use std::collections::BTreeMap;
use syn::spanned::Spanned;

/// name of an identifier without the raw-identifier prefix (`r#in` is the name `in`)
fn idn(i: &syn::Ident) -> String {
    let s = i.to_string();
    s.strip_prefix("r#").map(|x| x.to_string()).unwrap_or(s)
}

fn ts(t: &impl ToTokens) -> String {
    t.to_token_stream().to_string().replace(' ', "")
}

#[derive(Clone, Debug, PartialEq, Eq)]
pub struct OutField {
    pub name: String,
    pub ty: String,
    pub attrs: Vec<String>,
    pub public: bool,
}

#[derive(Clone, Debug, PartialEq, Eq)]
pub struct OutStruct {
    pub name: String,
    pub derives: Vec<String>,
    pub repr_c: bool,
    pub other_attrs: Vec<String>,
    pub fields: Vec<OutField>,
    pub generics: String,
    pub public: bool,
    pub lines: (usize, usize),
}

#[derive(Clone, Debug)]
pub struct OutConst {
    pub name: String,
    pub ty: String,
    pub expr: syn::Expr,
    pub public: bool,
    pub lines: (usize, usize),
}

#[derive(Clone, Debug, PartialEq, Eq)]
pub struct OutAssert {
    /// normalised token text of the asserted condition
    pub cond: String,
    pub message: String,
    pub lines: (usize, usize),
}

#[derive(Clone, Debug, PartialEq, Eq)]
pub struct OutLayoutEntry {
    pub binding: Option<u64>,
    /// stage bits if the expression was understood
    pub visibility: Option<u32>,
    pub visibility_text: String,
    pub ty: String,
    pub count: String,
}

#[derive(Clone, Debug, PartialEq, Eq)]
pub struct OutBindEntry {
    pub binding: Option<u64>,
    /// e.g. "Buffer", "TextureView", "Sampler"
    pub variant: String,
    /// the field of `bindings` handed over
    pub field: String,
}

#[derive(Clone, Debug, Default, PartialEq, Eq)]
pub struct OutGroup {
    pub fields: Vec<OutField>,
    pub layout_entries: Option<Vec<OutLayoutEntry>>,
    pub layout_label: Option<String>,
    pub bind_entries: Option<Vec<OutBindEntry>>,
    pub set_index: Option<u64>,
    pub has_struct: bool,
}

#[derive(Clone, Debug, PartialEq, Eq)]
pub enum SourceKind {
    Missing,
    Literal(String),
    Include(String),
    Unknown(String),
}

#[derive(Clone, Debug)]
pub struct ItemInfo {
    pub kind: &'static str,
    pub name: String,
    pub lines: (usize, usize),
}

#[derive(Clone, Debug)]
pub struct Out {
    pub structs: Vec<OutStruct>,
    pub consts: Vec<OutConst>,
    pub asserts: Vec<OutAssert>,
    pub groups: BTreeMap<u32, OutGroup>,
    pub has_bind_groups_mod: bool,
    pub bind_groups_struct_fields: Vec<OutField>,
    /// group numbers in the order of `bind_group_layouts` of create_pipeline_layout
    pub pipeline_layout_groups: Option<Vec<u32>>,
    /// (stages expression text, start, end) per push constant range
    pub push_ranges: Option<Vec<(String, Option<u64>, Option<u64>)>>,
    pub source: SourceKind,
    pub items: Vec<ItemInfo>,
    pub fns: Vec<String>,
    pub mods: Vec<String>,
    pub impls: Vec<String>,
    /// set_bind_groups parameter list: (name, type)
    pub set_bind_groups_params: Option<Vec<(String, String)>>,
}

pub fn lines_of(s: proc_macro2::Span) -> (usize, usize) {
    (s.start().line, s.end().line)
}

pub fn lit_u64(e: &syn::Expr) -> Option<u64> {
    match e {
        syn::Expr::Lit(syn::ExprLit { lit: syn::Lit::Int(i), .. }) => i.base10_parse::<u64>().ok(),
        syn::Expr::Paren(p) => lit_u64(&p.expr),
        syn::Expr::Group(p) => lit_u64(&p.expr),
        syn::Expr::Cast(c) => lit_u64(&c.expr),
        _ => None,
    }
}

pub fn lit_str(e: &syn::Expr) -> Option<String> {
    match e {
        syn::Expr::Lit(syn::ExprLit { lit: syn::Lit::Str(s), .. }) => Some(s.value()),
        syn::Expr::Paren(p) => lit_str(&p.expr),
        syn::Expr::Group(p) => lit_str(&p.expr),
        _ => None,
    }
}

/// Interpret a `wgpu::ShaderStages` constant expression. `env` resolves bare identifiers
/// (PUSH_CONSTANT_STAGES).
pub fn stage_bits(e: &syn::Expr, env: &dyn Fn(&str) -> Option<u32>) -> Option<u32> {
    match e {
        syn::Expr::Paren(p) => stage_bits(&p.expr, env),
        syn::Expr::Group(p) => stage_bits(&p.expr, env),
        syn::Expr::Path(p) => {
            let segs: Vec<String> = p.path.segments.iter().map(|s| s.ident.to_string()).collect();
            if segs.len() == 1 {
                return env(&segs[0]);
            }
            if segs.len() >= 2 && segs[segs.len() - 2] == "ShaderStages" {
                return match segs.last().unwrap().as_str() {
                    "NONE" => Some(0),
                    "VERTEX" => Some(1),
                    "FRAGMENT" => Some(2),
                    "COMPUTE" => Some(4),
                    "VERTEX_FRAGMENT" => Some(3),
                    _ => None,
                };
            }
            None
        }
        syn::Expr::Call(c) => {
            if let syn::Expr::Path(p) = &*c.func {
                let segs: Vec<String> = p.path.segments.iter().map(|s| s.ident.to_string()).collect();
                if segs.len() >= 2 && segs[segs.len() - 2] == "ShaderStages" && c.args.is_empty() {
                    return match segs.last().unwrap().as_str() {
                        "all" => Some(7),
                        "empty" => Some(0),
                        _ => None,
                    };
                }
            }
            None
        }
        syn::Expr::MethodCall(m) => {
            let recv = stage_bits(&m.receiver, env)?;
            if m.args.len() != 1 {
                return None;
            }
            let arg = stage_bits(&m.args[0], env)?;
            match m.method.to_string().as_str() {
                "union" => Some(recv | arg),
                "intersection" => Some(recv & arg),
                "difference" => Some(recv & !arg),
                _ => None,
            }
        }
        syn::Expr::Binary(b) => {
            let l = stage_bits(&b.left, env)?;
            let r = stage_bits(&b.right, env)?;
            match b.op {
                syn::BinOp::BitOr(_) => Some(l | r),
                syn::BinOp::BitAnd(_) => Some(l & r),
                _ => None,
            }
        }
        _ => None,
    }
}

fn attrs_info(attrs: &[syn::Attribute]) -> (Vec<String>, bool, Vec<String>) {
    let mut derives = Vec::new();
    let mut repr_c = false;
    let mut other = Vec::new();
    for a in attrs {
        if a.path().is_ident("derive") {
            if let Ok(list) = a.parse_args_with(syn::punctuated::Punctuated::<syn::Path, syn::Token![,]>::parse_terminated) {
                for p in list {
                    derives.push(ts(&p));
                }
            } else {
                other.push(ts(a));
            }
        } else if a.path().is_ident("repr") {
            let t = ts(a);
            if t == "#[repr(C)]" {
                repr_c = true;
            } else {
                other.push(t);
            }
        } else if a.path().is_ident("doc") {
        } else {
            other.push(ts(a));
        }
    }
    (derives, repr_c, other)
}

fn read_fields(fields: &syn::Fields) -> Vec<OutField> {
    match fields {
        syn::Fields::Named(n) => n
            .named
            .iter()
            .map(|f| OutField {
                name: idn(f.ident.as_ref().unwrap()),
                ty: ts(&f.ty),
                attrs: f.attrs.iter().map(|a| ts(a)).collect(),
                public: matches!(f.vis, syn::Visibility::Public(_)),
            })
            .collect(),
        syn::Fields::Unnamed(u) => u
            .unnamed
            .iter()
            .enumerate()
            .map(|(i, f)| OutField { name: i.to_string(), ty: ts(&f.ty), attrs: vec![], public: matches!(f.vis, syn::Visibility::Public(_)) })
            .collect(),
        syn::Fields::Unit => vec![],
    }
}

fn read_struct(s: &syn::ItemStruct) -> OutStruct {
    let (derives, repr_c, other_attrs) = attrs_info(&s.attrs);
    OutStruct {
        name: idn(&s.ident),
        derives,
        repr_c,
        other_attrs,
        fields: read_fields(&s.fields),
        generics: ts(&s.generics),
        public: matches!(s.vis, syn::Visibility::Public(_)),
        lines: lines_of(s.span()),
    }
}

/// fields of a struct literal expression `Path { a: x, b: y }`
fn struct_lit_fields(e: &syn::Expr) -> Option<(String, Vec<(String, syn::Expr)>)> {
    match e {
        syn::Expr::Struct(s) => {
            if s.rest.is_some() {
                return None;
            }
            let mut v = Vec::new();
            for f in &s.fields {
                if let syn::Member::Named(id) = &f.member {
                    v.push((idn(id), f.expr.clone()));
                } else {
                    return None;
                }
            }
            Some((ts(&s.path), v))
        }
        syn::Expr::Paren(p) => struct_lit_fields(&p.expr),
        syn::Expr::Reference(r) => struct_lit_fields(&r.expr),
        _ => None,
    }
}

fn array_elems(e: &syn::Expr) -> Option<Vec<syn::Expr>> {
    match e {
        syn::Expr::Reference(r) => array_elems(&r.expr),
        syn::Expr::Paren(p) => array_elems(&p.expr),
        syn::Expr::Array(a) => Some(a.elems.iter().cloned().collect()),
        _ => None,
    }
}

fn read_layout_descriptor(e: &syn::Expr) -> (Option<Vec<OutLayoutEntry>>, Option<String>) {
    let Some((_, fields)) = struct_lit_fields(e) else { return (None, None) };
    let mut entries = None;
    let mut label = None;
    for (n, v) in &fields {
        if n == "label" {
            if let syn::Expr::Call(c) = v {
                if c.args.len() == 1 {
                    label = lit_str(&c.args[0]);
                }
            }
        }
        if n == "entries" {
            if let Some(elems) = array_elems(v) {
                let mut out = Vec::new();
                for el in elems {
                    let Some((_, ef)) = struct_lit_fields(&el) else { return (None, label) };
                    let mut le = OutLayoutEntry { binding: None, visibility: None, visibility_text: String::new(), ty: String::new(), count: String::new() };
                    for (fname, fv) in ef {
                        match fname.as_str() {
                            "binding" => le.binding = lit_u64(&fv),
                            "visibility" => {
                                le.visibility = stage_bits(&fv, &|_| None);
                                le.visibility_text = ts(&fv);
                            }
                            "ty" => le.ty = ts(&fv),
                            "count" => le.count = ts(&fv),
                            _ => return (None, label),
                        }
                    }
                    out.push(le);
                }
                entries = Some(out);
            }
        }
    }
    (entries, label)
}

struct FindExprs<'a> {
    on_struct: &'a mut dyn FnMut(&syn::ExprStruct),
    on_method: &'a mut dyn FnMut(&syn::ExprMethodCall),
}

impl<'ast, 'a> syn::visit::Visit<'ast> for FindExprs<'a> {
    fn visit_expr_struct(&mut self, i: &'ast syn::ExprStruct) {
        (self.on_struct)(i);
        syn::visit::visit_expr_struct(self, i);
    }
    fn visit_expr_method_call(&mut self, i: &'ast syn::ExprMethodCall) {
        (self.on_method)(i);
        syn::visit::visit_expr_method_call(self, i);
    }
}

fn group_of(name: &str, prefix: &str) -> Option<u32> {
    name.strip_prefix(prefix).and_then(|r| if r.is_empty() || r.starts_with('+') { None } else { r.parse::<u32>().ok() })
}

fn read_bind_group_impl(imp: &syn::ItemImpl, g: &mut OutGroup) {
    for it in &imp.items {
        if let syn::ImplItem::Fn(f) = it {
            let name = f.sig.ident.to_string();
            if name == "from_bindings" {
                let mut found: Option<Vec<OutBindEntry>> = None;
                let mut bad = false;
                {
                    let mut on_struct = |s: &syn::ExprStruct| {
                        if s.path.segments.last().map(|x| x.ident == "BindGroupDescriptor").unwrap_or(false) {
                            for fld in &s.fields {
                                if let syn::Member::Named(id) = &fld.member {
                                    if id == "entries" {
                                        if let Some(elems) = array_elems(&fld.expr) {
                                            let mut v = Vec::new();
                                            for el in elems {
                                                let Some((_, ef)) = struct_lit_fields(&el) else {
                                                    bad = true;
                                                    continue;
                                                };
                                                let mut be = OutBindEntry { binding: None, variant: String::new(), field: String::new() };
                                                for (fname, fv) in ef {
                                                    if fname == "binding" {
                                                        be.binding = lit_u64(&fv);
                                                    } else if fname == "resource" {
                                                        if let syn::Expr::Call(c) = &fv {
                                                            if let syn::Expr::Path(p) = &*c.func {
                                                                be.variant = p.path.segments.last().map(|s| s.ident.to_string()).unwrap_or_default();
                                                            }
                                                            if c.args.len() == 1 {
                                                                if let syn::Expr::Field(fe) = &c.args[0] {
                                                                    if ts(&fe.base) == "bindings" {
                                                                        if let syn::Member::Named(id) = &fe.member {
                                                                            be.field = idn(id);
                                                                        }
                                                                    }
                                                                }
                                                            }
                                                        }
                                                    }
                                                }
                                                if be.variant.is_empty() || be.field.is_empty() || be.binding.is_none() {
                                                    bad = true;
                                                }
                                                v.push(be);
                                            }
                                            found = Some(v);
                                        } else {
                                            bad = true;
                                        }
                                    }
                                }
                            }
                        }
                    };
                    let mut on_method = |_: &syn::ExprMethodCall| {};
                    let mut v = FindExprs { on_struct: &mut on_struct, on_method: &mut on_method };
                    syn::visit::Visit::visit_block(&mut v, &f.block);
                }
                g.bind_entries = if bad { None } else { found };
            } else if name == "set" {
                let mut idx: Option<u64> = None;
                let mut count = 0;
                {
                    let mut on_struct = |_: &syn::ExprStruct| {};
                    let mut on_method = |m: &syn::ExprMethodCall| {
                        if m.method == "set_bind_group" {
                            count += 1;
                            if let Some(a) = m.args.first() {
                                idx = lit_u64(a);
                            }
                        }
                    };
                    let mut v = FindExprs { on_struct: &mut on_struct, on_method: &mut on_method };
                    syn::visit::Visit::visit_block(&mut v, &f.block);
                }
                g.set_index = if count == 1 { idx } else { None };
            }
        }
    }
}

fn read_bind_groups_mod(m: &syn::ItemMod, out: &mut Out) {
    let Some((_, items)) = &m.content else { return };
    out.has_bind_groups_mod = true;
    for it in items {
        match it {
            syn::Item::Struct(s) => {
                let name = s.ident.to_string();
                if let Some(n) = group_of(&name, "BindGroupLayout") {
                    let g = out.groups.entry(n).or_default();
                    g.fields = read_fields(&s.fields);
                } else if let Some(n) = group_of(&name, "BindGroup") {
                    out.groups.entry(n).or_default().has_struct = true;
                } else if name == "BindGroups" {
                    out.bind_groups_struct_fields = read_fields(&s.fields);
                }
            }
            syn::Item::Const(c) => {
                if let Some(n) = group_of(&c.ident.to_string(), "LAYOUT_DESCRIPTOR") {
                    let (entries, label) = read_layout_descriptor(&c.expr);
                    let g = out.groups.entry(n).or_default();
                    g.layout_entries = entries;
                    g.layout_label = label;
                }
            }
            syn::Item::Impl(imp) => {
                if imp.trait_.is_none() {
                    if let Some(n) = group_of(&ts(&imp.self_ty), "BindGroup") {
                        let g = out.groups.entry(n).or_default();
                        read_bind_group_impl(imp, g);
                    }
                }
            }
            _ => {}
        }
    }
}

fn read_pipeline_layout(f: &syn::ItemFn, out: &mut Out) {
    let mut groups: Option<Vec<u32>> = None;
    let mut ranges: Option<Vec<(String, Option<u64>, Option<u64>)>> = None;
    let mut ok = true;
    {
        let mut on_struct = |s: &syn::ExprStruct| {
            if s.path.segments.last().map(|x| x.ident == "PipelineLayoutDescriptor").unwrap_or(false) {
                for fld in &s.fields {
                    if let syn::Member::Named(id) = &fld.member {
                        if id == "bind_group_layouts" {
                            if let Some(elems) = array_elems(&fld.expr) {
                                let mut v = Vec::new();
                                for el in elems {
                                    // &bind_groups::BindGroupN::get_bind_group_layout(device)
                                    let t = ts(&el);
                                    let t = t.trim_start_matches('&');
                                    let rest = t.strip_prefix("bind_groups::BindGroup");
                                    let n = rest.and_then(|r| r.strip_suffix("::get_bind_group_layout(device)")).and_then(|r| r.parse::<u32>().ok());
                                    match n {
                                        Some(n) => v.push(n),
                                        None => ok = false,
                                    }
                                }
                                groups = Some(v);
                            } else {
                                ok = false;
                            }
                        } else if id == "push_constant_ranges" {
                            if let Some(elems) = array_elems(&fld.expr) {
                                let mut v = Vec::new();
                                for el in elems {
                                    if let Some((_, ef)) = struct_lit_fields(&el) {
                                        let mut st = String::new();
                                        let mut a = None;
                                        let mut b = None;
                                        for (n, fv) in ef {
                                            if n == "stages" {
                                                st = ts(&fv);
                                            } else if n == "range" {
                                                if let syn::Expr::Range(r) = &fv {
                                                    a = r.start.as_ref().and_then(|x| lit_u64(x));
                                                    b = r.end.as_ref().and_then(|x| lit_u64(x));
                                                    if !matches!(r.limits, syn::RangeLimits::HalfOpen(_)) {
                                                        b = None;
                                                    }
                                                }
                                            }
                                        }
                                        v.push((st, a, b));
                                    } else {
                                        ok = false;
                                    }
                                }
                                ranges = Some(v);
                            } else {
                                ok = false;
                            }
                        }
                    }
                }
            }
        };
        let mut on_method = |_: &syn::ExprMethodCall| {};
        let mut v = FindExprs { on_struct: &mut on_struct, on_method: &mut on_method };
        syn::visit::Visit::visit_block(&mut v, &f.block);
    }
    if ok {
        out.pipeline_layout_groups = groups;
        out.push_ranges = ranges;
    }
}

/// proc-macro2 (built with `span-locations`, which the reader needs for line numbers, and which
/// cargo's feature unification also switches on for the code under test) keeps every parsed source in
/// a thread-local map indexed by u32: after 4 GiB of parsed text it overflows. No span is kept across
/// calls (only line numbers and token text are), so the map is dropped before every parse.
pub fn reset_span_map() {
    proc_macro2::extra::invalidate_current_thread_spans();
}

/// `"lit"`, `concat!("a", "b", ..)` (also nested and path-qualified) evaluated to the string they denote
fn const_str(e: &syn::Expr) -> Option<String> {
    match e {
        syn::Expr::Lit(syn::ExprLit { lit: syn::Lit::Str(s), .. }) => Some(s.value()),
        syn::Expr::Paren(p) => const_str(&p.expr),
        syn::Expr::Group(g) => const_str(&g.expr),
        syn::Expr::Macro(m) if m.mac.path.segments.last().map(|s| s.ident == "concat").unwrap_or(false) => {
            let args = m.mac.parse_body_with(syn::punctuated::Punctuated::<syn::Expr, syn::Token![,]>::parse_terminated).ok()?;
            let mut s = String::new();
            for a in args.iter() {
                s.push_str(&const_str(a)?);
            }
            Some(s)
        }
        _ => None,
    }
}

fn source_kind(e: &syn::Expr) -> SourceKind {
    if let Some(s) = const_str(e) {
        return SourceKind::Literal(s);
    }
    match e {
        syn::Expr::Macro(m) if m.mac.path.segments.last().map(|s| s.ident == "include_str").unwrap_or(false) => match syn::parse2::<syn::LitStr>(m.mac.tokens.clone()) {
            Ok(l) => SourceKind::Include(l.value()),
            Err(_) => SourceKind::Unknown(ts(e)),
        },
        other => SourceKind::Unknown(ts(other)),
    }
}

/// condition (spaces removed) and message of an `assert!(cond, "msg")` invocation
fn split_assert(mac: &syn::Macro) -> (String, String) {
    let v: Vec<proc_macro2::TokenTree> = mac.tokens.clone().into_iter().collect();
    // split at the last top-level comma
    let mut split = None;
    for (i, t) in v.iter().enumerate() {
        if let proc_macro2::TokenTree::Punct(p) = t {
            if p.as_char() == ',' {
                split = Some(i);
            }
        }
    }
    match split {
        Some(i) => {
            let c: TokenStream = v[..i].iter().cloned().collect();
            let m: TokenStream = v[i + 1..].iter().cloned().collect();
            (c.to_string().replace(' ', ""), syn::parse2::<syn::LitStr>(m).map(|l| l.value()).unwrap_or_default())
        }
        None => (v.iter().cloned().collect::<TokenStream>().to_string().replace(' ', ""), String::new()),
    }
}

fn read_items(items: &[syn::Item], out: &mut Out) {
    for it in items {
        match it {
            syn::Item::Struct(s) => {
                out.items.push(ItemInfo { kind: "struct", name: idn(&s.ident), lines: lines_of(s.span()) });
                out.structs.push(read_struct(s));
            }
            syn::Item::Const(c) => {
                let name = idn(&c.ident);
                out.items.push(ItemInfo { kind: "const", name: name.clone(), lines: lines_of(c.span()) });
                if name == "_" {
                    // const _: () = assert!(cond, "msg");   (also path-qualified: ::core::assert!)
                    // const _: () = { assert!(..); assert!(..); };
                    let is_assert = |m: &syn::Macro| m.path.segments.last().map(|s| s.ident == "assert").unwrap_or(false);
                    match &*c.expr {
                        syn::Expr::Macro(m) if is_assert(&m.mac) => {
                            let (cond, msg) = split_assert(&m.mac);
                            out.asserts.push(OutAssert { cond, message: msg, lines: lines_of(c.span()) });
                            continue;
                        }
                        syn::Expr::Block(b) => {
                            let mut n = 0;
                            for st in &b.block.stmts {
                                let mac = match st {
                                    syn::Stmt::Macro(sm) => Some((&sm.mac, lines_of(sm.span()))),
                                    syn::Stmt::Expr(syn::Expr::Macro(em), _) => Some((&em.mac, lines_of(em.span()))),
                                    _ => None,
                                };
                                if let Some((mac, lines)) = mac {
                                    if is_assert(mac) {
                                        let (cond, msg) = split_assert(mac);
                                        // the span of the whole item: what is cut out or attributed is the item
                                        let _ = lines;
                                        out.asserts.push(OutAssert { cond, message: msg, lines: lines_of(c.span()) });
                                        n += 1;
                                    }
                                }
                            }
                            if n > 0 {
                                continue;
                            }
                        }
                        _ => {}
                    }
                }
                if name == "SOURCE" {
                    out.source = source_kind(&c.expr);
                }
                out.consts.push(OutConst {
                    name,
                    ty: ts(&c.ty),
                    expr: (*c.expr).clone(),
                    public: matches!(c.vis, syn::Visibility::Public(_)),
                    lines: lines_of(c.span()),
                });
            }
            syn::Item::Mod(m) => {
                out.items.push(ItemInfo { kind: "mod", name: m.ident.to_string(), lines: lines_of(m.span()) });
                out.mods.push(m.ident.to_string());
                if m.ident == "bind_groups" {
                    read_bind_groups_mod(m, out);
                } else if let Some((_, inner)) = &m.content {
                    // an inline module whose items are glob re-exported next to it (`pub use m::*;`)
                    // holds items of this namespace: read them as if they were written here
                    let reexported = items.iter().any(|i| match i {
                        syn::Item::Use(u) if matches!(u.vis, syn::Visibility::Public(_)) => {
                            let t = u.tree.to_token_stream().to_string().replace(' ', "");
                            t == format!("{}::*", m.ident) || t == format!("self::{}::*", m.ident)
                        }
                        _ => false,
                    });
                    if reexported {
                        read_items(inner, out);
                    }
                }
            }
            syn::Item::Fn(f) => {
                let name = f.sig.ident.to_string();
                out.items.push(ItemInfo { kind: "fn", name: name.clone(), lines: lines_of(f.span()) });
                if name == "create_pipeline_layout" {
                    read_pipeline_layout(f, out);
                }
                if name == "set_bind_groups" {
                    let mut ps = Vec::new();
                    for a in &f.sig.inputs {
                        if let syn::FnArg::Typed(pt) = a {
                            ps.push((ts(&pt.pat), ts(&pt.ty)));
                        }
                    }
                    out.set_bind_groups_params = Some(ps);
                }
                out.fns.push(name);
            }
            syn::Item::Impl(i) => {
                out.items.push(ItemInfo { kind: "impl", name: ts(&i.self_ty), lines: lines_of(i.span()) });
                out.impls.push(ts(&i.self_ty));
            }
            other => {
                out.items.push(ItemInfo { kind: "other", name: String::new(), lines: lines_of(other.span()) });
            }
        }
    }
}

pub fn read(text: &str) -> Result<Out, String> {
    reset_span_map();
    let file = syn::parse_file(text).map_err(|e| format!("output is not a Rust file: {e}"))?;
    let mut out = Out {
        structs: vec![],
        consts: vec![],
        asserts: vec![],
        groups: BTreeMap::new(),
        has_bind_groups_mod: false,
        bind_groups_struct_fields: vec![],
        pipeline_layout_groups: None,
        push_ranges: None,
        source: SourceKind::Missing,
        items: vec![],
        fns: vec![],
        mods: vec![],
        impls: vec![],
        set_bind_groups_params: None,
    };
    read_items(&file.items, &mut out);
    Ok(out)
}

impl Out {
    pub fn item_at_line(&self, line: usize) -> Option<&ItemInfo> {
        self.items.iter().find(|i| i.lines.0 <= line && line <= i.lines.1)
    }
    pub fn const_named(&self, n: &str) -> Option<&OutConst> {
        self.consts.iter().find(|c| c.name == n)
    }
}

/// Tokenise Rust text into a flat list of token strings with the two semantics-preserving
/// normalisations of DESIGN §4.6 (trailing comma before a closing delimiter dropped; `;` directly
/// after a `}` that closes a block-like expression statement dropped).
pub fn norm_tokens(text: &str) -> Result<Vec<String>, String> {
    reset_span_map();
    let ts: TokenStream = text.parse().map_err(|e| format!("does not tokenise: {e}"))?;
    let mut out = Vec::new();
    flatten(ts, &mut out);
    Ok(out)
}

fn flatten(ts: TokenStream, out: &mut Vec<String>) {
    use proc_macro2::{Delimiter, TokenTree};
    let toks: Vec<TokenTree> = ts.into_iter().collect();
    let n = toks.len();
    for (i, t) in toks.into_iter().enumerate() {
        match t {
            TokenTree::Group(g) => {
                let (o, c) = match g.delimiter() {
                    Delimiter::Parenthesis => ("(", ")"),
                    Delimiter::Brace => ("{", "}"),
                    Delimiter::Bracket => ("[", "]"),
                    Delimiter::None => ("", ""),
                };
                if !o.is_empty() {
                    out.push(o.to_string());
                }
                flatten(g.stream(), out);
                if !c.is_empty() {
                    out.push(c.to_string());
                }
            }
            TokenTree::Punct(p) => {
                if p.as_char() == ',' && i + 1 == n {
                    // trailing comma before a closing delimiter
                    continue;
                }
                if p.as_char() == ';' && out.last().map(|s| s == "}").unwrap_or(false) {
                    continue;
                }
                // joint punctuation is kept as separate chars; spacing does not change meaning once
                // the character sequence is identical
                out.push(p.as_char().to_string());
            }
            TokenTree::Ident(id) => out.push(id.to_string()),
            TokenTree::Literal(l) => out.push(l.to_string()),
        }
    }
}
