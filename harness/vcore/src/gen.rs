//! Builder: choice sequence + profile -> valid `Shader` model (validity by construction, measured
//! by the naga pre-flight in `preflight.rs`).

use crate::chooser::Ch;
use crate::layout::*;
use crate::model::*;
use std::collections::HashSet;

#[derive(Clone, Debug)]
pub struct TyProfile {
    /// bool members (only valid outside uniform/storage/push constant)
    pub bools: bool,
    /// only square matrices (what glam can represent)
    pub square_mats: bool,
    pub f64_: bool,
    pub ints: bool,
    pub atomic: bool,
    pub rt: bool,
    pub mats: bool,
    pub nested: bool,
    pub arrays: bool,
    pub attrs: bool,
    pub max_array: u32,
    /// chance (n/64) that a top-level array length is a boundary value (33, 255..257, 65535..65537)
    pub len_edges: u32,
    /// n/8 chance that a member is drawn from the "16-byte friendly" list (vec4, mat4x4, ...)
    pub friendly: u32,
}

impl TyProfile {
    pub fn full() -> Self {
        TyProfile { bools: false, square_mats: false, f64_: true, ints: true, atomic: true, rt: true, mats: true, nested: true, arrays: true, attrs: false, max_array: 6, len_edges: 0, friendly: 2 }
    }
    pub fn simple() -> Self {
        TyProfile { bools: false, square_mats: false, f64_: false, ints: true, atomic: false, rt: false, mats: false, nested: false, arrays: false, attrs: false, max_array: 4, len_edges: 0, friendly: 4 }
    }
}

#[derive(Clone, Debug)]
pub struct Profile {
    pub host_structs: (usize, usize),
    pub members: (usize, usize),
    pub ty: TyProfile,
    pub groups: (usize, usize),
    pub bindings: (usize, usize),
    pub sparse: bool,
    pub huge_indices: bool,
    pub shuffle_decl: bool,
    pub w_buf: u32,
    pub w_tex: u32,
    pub w_samp: u32,
    pub w_stex: u32,
    pub funcs: (usize, usize),
    pub stmts: (usize, usize),
    pub depth: usize,
    pub entries: [(usize, usize); 3],
    pub io_structs: bool,
    pub vertex_struct_params: (usize, usize),
    /// chances out of 8
    pub push: u32,
    pub private: u32,
    pub workgroup: u32,
    pub nonascii: u32,
    pub unused_structs: (usize, usize),
    /// never generate the shapes listed in known_findings.json as `known` (they are covered by canaries)
    pub avoid_known: bool,
    /// allow multisampled float textures (known finding K1) when false==avoid
    pub f64_vertex: bool,
    /// generate atomic-access storage textures
    pub atomic_tex: bool,
    pub multisampled: bool,
    /// after generating entry points, make every resource reachable from at least one entry point
    pub use_all_resources: bool,
    /// chance (n/8) per vertex input struct to be also bound as a storage buffer (role "both")
    pub vin_as_storage: u32,
    /// chance (n/8) per entry result struct to be also bound as a storage buffer (directly, as array
    /// element or nested in a fresh struct)
    pub out_as_storage: u32,
    /// chance (n/8) per function body to mention a resource without using it (`_ = tex;`,
    /// `let p = &buf;`). Such a mention is not a use for naga/wgpu, so the visibility properties keep
    /// this off; it exists for differential properties (C17).
    pub phony_refs: u32,
    /// chance (n/8) that module-scope declarations are emitted in a permuted order
    pub shuffle_items: u32,
    /// chance (n/8) per generated name to be a Rust keyword that WGSL does not reserve (in, dyn, box)
    pub keyword_names: u32,
    /// chance (n/8) that the module declares type aliases and spells some member / variable /
    /// parameter types through them
    pub aliases: u32,
    /// chance (n/64) that the module has 65..140 small helper functions instead of `funcs`
    /// (handle indices beyond 64 / 128: bit-set and small-table boundaries)
    pub many_funcs: u32,
    /// chance (n/8) that the module declares 1-3 overrides (plus one u32 override with a default)
    pub overrides: u32,
    /// chance (n/8) per compute entry point that one @workgroup_size dimension is an override
    pub wg_override: u32,
    /// chance (n/8) that a `var<workgroup>` array sized by an override is declared
    pub ov_sized_array: u32,
    /// chance (n/8) that helper functions taking and returning structs (entry parameter structs and
    /// host structs), pointer parameters and a `const_assert` are declared
    pub struct_helpers: u32,
}

impl Profile {
    pub fn base() -> Self {
        Profile {
            host_structs: (0, 3),
            members: (1, 4),
            ty: TyProfile::full(),
            groups: (0, 3),
            bindings: (1, 4),
            sparse: true,
            huge_indices: false,
            shuffle_decl: true,
            w_buf: 4,
            w_tex: 2,
            w_samp: 1,
            w_stex: 2,
            funcs: (0, 3),
            stmts: (0, 4),
            depth: 2,
            entries: [(0, 2), (0, 2), (0, 2)],
            io_structs: true,
            vertex_struct_params: (0, 2),
            push: 1,
            private: 1,
            workgroup: 1,
            nonascii: 1,
            unused_structs: (0, 1),
            avoid_known: true,
            f64_vertex: true,
            atomic_tex: true,
            multisampled: true,
            use_all_resources: false,
            vin_as_storage: 0,
            out_as_storage: 0,
            phony_refs: 0,
            shuffle_items: 3,
            keyword_names: 0,
            aliases: 2,
            many_funcs: 0,
            overrides: 0,
            wg_override: 0,
            ov_sized_array: 0,
            struct_helpers: 0,
        }
    }
}

// ---------------------------------------------------------------------------------------------
// names

pub struct Names {
    used: HashSet<String>,
    hist: Vec<String>,
    n: usize,
    /// chance out of 64 that a fresh name is a Rust keyword WGSL does not reserve
    pub keywords: u32,
}

const NONASCII: [&str; 6] = ["ß", "ö", "Δ", "名", "é", "я"];

impl Names {
    pub fn new() -> Self {
        Names { used: HashSet::new(), hist: Vec::new(), n: 0, keywords: 0 }
    }
    /// A fresh identifier unique up to case. `cap` = first letter upper-case (type-like).
    pub fn fresh(&mut self, ch: &mut Ch, prefix: &str, nonascii: u32) -> String {
        // keyword names are used for module-scope items and members, not for function parameters
        // (a parameter named like a module-scope item shadows it inside that function)
        if self.keywords > 0 && prefix != "p" && ch.chance(self.keywords, 64) {
            // type-like names are capitalised (their snake_case form is the keyword)
            let cands: [&str; 3] = if prefix.chars().next().map(|c| c.is_uppercase()).unwrap_or(false) { ["In", "Dyn", "Box"] } else { ["in", "dyn", "box"] };
            let c = *ch.pick(&cands);
            if self.used.insert(c.to_lowercase()) {
                return c.to_string();
            }
        }
        // an earlier name of the same kind with zeros added to its trailing number (`St3` -> `St03`,
        // `St30`, `St003`): distinct identifiers that "natural" comparisons confuse
        if !self.hist.is_empty() && ch.chance(1, 12) {
            let same: Vec<&String> = self.hist.iter().filter(|h| h.to_lowercase().trim_start_matches('_').starts_with(&prefix.to_lowercase().trim_start_matches('_').to_string())).collect();
            if !same.is_empty() {
                let h = (*ch.pick(&same)).clone();
                let digits_at = h.trim_end_matches(|c: char| !c.is_ascii_digit()).trim_end_matches(|c: char| c.is_ascii_digit()).len();
                let tail_at = h.trim_end_matches(|c: char| !c.is_ascii_digit()).len();
                if tail_at > digits_at {
                    let (base, digits, tail) = (&h[..digits_at], &h[digits_at..tail_at], &h[tail_at..]);
                    let s = match ch.below(3) {
                        0 => format!("{base}0{digits}{tail}"),
                        1 => format!("{base}00{digits}{tail}"),
                        _ => format!("{base}{digits}0{tail}"),
                    };
                    if self.used.insert(s.to_lowercase()) {
                        self.hist.push(s.clone());
                        return s;
                    }
                }
            }
        }
        loop {
            self.n += 1;
            // letter-case variety: identifiers are case-sensitive in WGSL, and several generated Rust
            // names are derived by upper-/snake-casing them
            let pfx = match ch.below(8) {
                0 => {
                    let mut c = prefix.chars();
                    match c.next() {
                        Some(f) => f.to_uppercase().collect::<String>() + c.as_str(),
                        None => String::new(),
                    }
                }
                1 => prefix.to_uppercase(),
                2 => format!("{}Xy", prefix.trim_end_matches('_')),
                3 => {
                    let mut c = prefix.chars();
                    match c.next() {
                        Some(f) => f.to_lowercase().collect::<String>() + c.as_str(),
                        None => String::new(),
                    }
                }
                // leading underscore (`_pad0`); `__` is reserved in WGSL
                4 if !prefix.starts_with('_') => format!("_{prefix}"),
                _ => prefix.to_string(),
            };
            let prefix = pfx.as_str();
            let mut s = format!("{}{}", prefix, self.n);
            if nonascii > 0 && ch.chance(nonascii, 8) {
                s.push_str(*ch.pick(&NONASCII[..]));
            }
            let key = s.to_lowercase();
            if self.used.insert(key) {
                self.hist.push(s.clone());
                return s;
            }
        }
    }
    pub fn reserve(&mut self, s: &str) {
        self.used.insert(s.to_lowercase());
    }
}

// ---------------------------------------------------------------------------------------------
// types

fn gen_scalar(ch: &mut Ch, tp: &TyProfile) -> Sc {
    let mut opts = vec![Sc::F32];
    if tp.ints {
        opts.push(Sc::I32);
        opts.push(Sc::U32);
    }
    if tp.f64_ {
        opts.push(Sc::F64);
    }
    if tp.bools {
        opts.push(Sc::Bool);
    }
    *ch.pick(&opts)
}

fn gen_leaf(ch: &mut Ch, tp: &TyProfile) -> Ty {
    if tp.friendly > 0 && ch.chance(tp.friendly, 8) {
        let opts = [
            Ty::V(4, Sc::F32),
            Ty::M { c: 4, r: 4, s: Sc::F32 },
            Ty::V(4, Sc::U32),
            Ty::V(4, Sc::I32),
            Ty::M { c: 2, r: 4, s: Sc::F32 },
            Ty::M { c: 3, r: 4, s: Sc::F32 },
        ];
        let t = ch.pick(&opts).clone();
        if !tp.ints && matches!(t, Ty::V(_, Sc::U32 | Sc::I32)) {
            return Ty::V(4, Sc::F32);
        }
        if !tp.mats && matches!(t, Ty::M { .. }) {
            return Ty::V(4, Sc::F32);
        }
        if tp.square_mats && matches!(t, Ty::M { c, r, .. } if c != r) {
            return Ty::M { c: 4, r: 4, s: Sc::F32 };
        }
        return t;
    }
    let w = [3u32, 4, if tp.mats { 3 } else { 0 }, if tp.atomic { 1 } else { 0 }];
    match ch.weighted(&w) {
        0 => Ty::S(gen_scalar(ch, tp)),
        1 => Ty::V(ch.range(2, 4) as u8, gen_scalar(ch, tp)),
        2 => {
            let s = if tp.f64_ && ch.chance(1, 4) { Sc::F64 } else { Sc::F32 };
            let c = ch.range(2, 4) as u8;
            let r = if tp.square_mats { ch.raw(); c } else { ch.range(2, 4) as u8 };
            Ty::M { c, r, s }
        }
        _ => Ty::At(if ch.flip() { Sc::U32 } else { Sc::I32 }),
    }
}

/// A sized data type (no runtime array).
pub fn gen_sized_ty(ch: &mut Ch, tp: &TyProfile, structs: &[StructDef], nest_ok: &[usize], depth: usize) -> Ty {
    let w = [
        6u32,
        if tp.arrays && depth < 2 { 2 } else { 0 },
        if tp.nested && !nest_ok.is_empty() { 2 } else { 0 },
    ];
    match ch.weighted(&w) {
        0 => gen_leaf(ch, tp),
        1 => {
            let e = gen_sized_ty(ch, tp, structs, nest_ok, depth + 1);
            // keep every type below 1 MiB: u32 layout arithmetic (naga's and the model's) stays exact
            let stride = wgsl_stride(&e, structs).max(1);
            let cap = ((1u32 << 20) / stride).max(1);
            let mut len = ch.range(1, tp.max_array.max(1));
            if tp.len_edges > 0 && depth == 0 && ch.chance(tp.len_edges, 64) {
                len = *ch.pick(&[33u32, 255, 256, 257, 65535, 65536, 65537, 70000]);
                // tens of thousands of elements only for scalar elements (probes build those arrays with
                // a closure; anything else would be written out element by element)
                if !matches!(e, Ty::S(Sc::F32 | Sc::I32 | Sc::U32)) {
                    len = len.min(257);
                }
            }
            Ty::A(Box::new(e), len.min(cap))
        }
        _ => Ty::St(*ch.pick(nest_ok)),
    }
}

fn explicit_pad_member(names: &mut Names, ch: &mut Ch, bytes: u32) -> Vec<Member> {
    // express `bytes` of padding (multiple of 4) as f32 / vecN<f32> members whose natural alignment is
    // satisfied wherever 4-byte alignment is (only f32 scalars are alignment-free)
    (0..bytes / 4).map(|_| Member::plain(&names.fresh(ch, "pad_", 0), Ty::S(Sc::F32))).collect()
}

/// Host-shareable struct generation.
pub fn gen_host_struct(ch: &mut Ch, p: &Profile, names: &mut Names, structs: &[StructDef], allow_rt: bool) -> StructDef {
    let name = names.fresh(ch, "St", p.nonascii);
    let n = ch.usize_range(p.members.0.max(1), p.members.1.max(1));
    // nested structs must be sized (no rt arrays). A struct whose alignment comes from an explicit
    // @align is not nested either: naga 24 loses the attribute when it lays out the outer struct
    // (known finding K5, covered by a canary)
    let nest_ok: Vec<usize> =
        (0..structs.len()).filter(|i| !Ty::St(*i).has_rt_array(structs) && !(p.avoid_known && structs[*i].members.iter().any(|m| m.align_attr.is_some()))).collect();
    let mut members = Vec::new();
    // "explicit padding" mode: insert pad members so that the repr(C) layout of plain arrays matches WGSL
    let pad_mode = ch.chance(2, 8);
    let rt_tail = allow_rt && p.ty.rt && ch.chance(2, 8);
    // the runtime-sized array may be the only member
    let n = if rt_tail && ch.chance(1, 4) { 0 } else { n };
    for _ in 0..n {
        let ty = gen_sized_ty(ch, &p.ty, structs, &nest_ok, 0);
        let mut m = Member::plain(&names.fresh(ch, "m", p.nonascii), ty);
        if p.ty.attrs && ch.chance(1, 6) {
            let l = wgsl_layout(&m.ty, structs);
            if ch.flip() {
                m.align_attr = Some(l.align * (1 << ch.range(0, 2)));
            } else {
                m.size_attr = Some(round_up(4, l.size) + 4 * ch.range(0, 4));
            }
        }
        if pad_mode {
            // pad so this member's WGSL offset is reached by 4-byte members
            let tmp = StructDef { name: String::new(), members: members.clone() };
            let sl = wgsl_struct_layout(&tmp, structs);
            let end = if members.is_empty() { 0 } else { sl.offsets.last().unwrap() + member_size(members.last().unwrap(), structs) };
            let a = m.align_attr.unwrap_or(wgsl_layout(&m.ty, structs).align);
            let want = round_up(a, end);
            if want > end && (want - end) % 4 == 0 && end % 4 == 0 {
                members.extend(explicit_pad_member(names, ch, want - end));
            }
        }
        members.push(m);
    }
    if pad_mode && !members.is_empty() {
        let tmp = StructDef { name: String::new(), members: members.clone() };
        let sl = wgsl_struct_layout(&tmp, structs);
        let end = sl.offsets.last().unwrap() + member_size(members.last().unwrap(), structs);
        if sl.size > end && (sl.size - end) % 4 == 0 && end % 4 == 0 {
            members.extend(explicit_pad_member(names, ch, sl.size - end));
        }
    }
    if rt_tail {
        let e = gen_sized_ty(ch, &p.ty, structs, &nest_ok, 1);
        members.push(Member::plain(&names.fresh(ch, "rt", p.nonascii), Ty::RA(Box::new(e))));
    }
    StructDef { name, members }
}

fn member_size(m: &Member, structs: &[StructDef]) -> u32 {
    m.size_attr.unwrap_or(wgsl_layout(&m.ty, structs).size)
}

// ---------------------------------------------------------------------------------------------
// access options

fn zero(ty: &Ty, structs: &[StructDef]) -> String {
    format!("{}()", ty.wgsl(structs))
}

/// leaf paths into a buffer-typed value
fn paths(ty: &Ty, structs: &[StructDef], prefix: &str, out: &mut Vec<(String, Ty)>, budget: &mut usize) {
    if *budget == 0 {
        return;
    }
    match ty {
        Ty::S(_) | Ty::V(..) | Ty::M { .. } | Ty::At(_) => {
            *budget -= 1;
            out.push((prefix.to_string(), ty.clone()));
        }
        Ty::A(e, n) => {
            paths(e, structs, &format!("{prefix}[0]"), out, budget);
            if *n > 1 {
                paths(e, structs, &format!("{prefix}[{}]", n - 1), out, budget);
            }
        }
        Ty::RA(e) => {
            *budget = budget.saturating_sub(1);
            out.push((prefix.to_string(), ty.clone()));
            paths(e, structs, &format!("{prefix}[0]"), out, budget);
        }
        Ty::St(i) => {
            for m in &structs[*i].members {
                paths(&m.ty, structs, &format!("{prefix}.{}", m.name), out, budget);
            }
        }
    }
}

fn coords_i(dim: Dim) -> &'static str {
    match dim {
        Dim::D1 => "0",
        Dim::D2 => "vec2<i32>(0, 0)",
        Dim::D3 | Dim::Cube => "vec3<i32>(0, 0, 0)",
    }
}

fn coords_f(dim: Dim) -> &'static str {
    match dim {
        Dim::D1 => "0.5",
        Dim::D2 => "vec2<f32>(0.5, 0.5)",
        Dim::D3 | Dim::Cube => "vec3<f32>(0.5, 0.5, 0.5)",
    }
}

fn texel_value(fmt: usize) -> String {
    let (name, sc) = STORAGE_FORMATS[fmt];
    if name == "r64uint" {
        "vec4<u64>(1lu, 0lu, 0lu, 0lu)".to_string()
    } else {
        format!("vec4<{}>({}, {}, {}, {})", sc.wgsl(), sc.lit(1), sc.lit(0), sc.lit(0), sc.lit(1))
    }
}

pub fn access_options(sh: &Shader, gi: usize) -> Vec<Access> {
    let g = &sh.globals[gi];
    let n = &g.name;
    let mut out = Vec::new();
    let mk = |form: AccForm, partner: Option<usize>, label: &'static str| Access { g: gi, form, partner, label: label.to_string() };
    match &g.kind {
        GKind::Buf { space, ty } => {
            let writable = matches!(space, Space::StorageRW | Space::Private | Space::Workgroup);
            let mut ps = Vec::new();
            let mut budget = 6;
            paths(ty, &sh.structs, n, &mut ps, &mut budget);
            let ov_sized = sh.ov_sized.iter().any(|(v, _)| v == n);
            if !ty.has_atomic(&sh.structs) && !ty.has_rt_array(&sh.structs) && !ov_sized {
                out.push(mk(AccForm::Load(n.clone()), None, "load_whole"));
            }
            for (p, leaf) in ps {
                match &leaf {
                    Ty::At(sc) => {
                        out.push(mk(AccForm::Load(format!("atomicLoad(&{p})")), None, "atomic_load"));
                        out.push(mk(AccForm::Load(format!("atomicAdd(&{p}, {})", sc.lit(1))), None, "atomic_rmw"));
                        out.push(mk(AccForm::Store(format!("atomicStore(&{p}, {})", sc.lit(1)), String::new()), None, "atomic_store"));
                    }
                    Ty::RA(_) => {
                        out.push(mk(AccForm::Load(format!("arrayLength(&{p})")), None, "array_length"));
                    }
                    _ => {
                        out.push(mk(AccForm::Load(p.clone()), None, "load"));
                        if writable {
                            out.push(mk(AccForm::Store(p.clone(), zero(&leaf, &sh.structs)), None, "store"));
                        }
                    }
                }
            }
        }
        GKind::Tex(t) => {
            out.push(mk(AccForm::Load(format!("textureDimensions({n})")), None, "tex_dimensions"));
            match *t {
                Tex::Sampled { dim, arrayed, sc, multi } => {
                    if dim != Dim::Cube {
                        let arr = if arrayed { ", 0" } else { "" };
                        out.push(mk(AccForm::Load(format!("textureLoad({n}, {}{arr}, 0)", coords_i(dim))), None, "tex_load"));
                    }
                    if !multi {
                        out.push(mk(AccForm::Load(format!("textureNumLevels({n})")), None, "tex_query"));
                    }
                    if sc == Sc::F32 && !multi && dim != Dim::D1 {
                        // partner: any filtering sampler
                        for (si, s) in sh.globals.iter().enumerate() {
                            if matches!(s.kind, GKind::Samp { cmp: false }) {
                                let arr = if arrayed { ", 0" } else { "" };
                                out.push(mk(
                                    AccForm::Load(format!("textureSampleLevel({n}, {}, {}{arr}, 0.0)", s.name, coords_f(dim))),
                                    Some(si),
                                    "tex_sample_level",
                                ));
                                if dim == Dim::D2 || dim == Dim::Cube {
                                    out.push(mk(
                                        AccForm::Load(format!("textureGather(0, {n}, {}, {}{arr})", s.name, coords_f(dim))),
                                        Some(si),
                                        "tex_gather",
                                    ));
                                }
                                break;
                            }
                        }
                    }
                }
                Tex::Depth { dim, arrayed, multi } => {
                    if dim != Dim::Cube {
                        let arr = if arrayed { ", 0" } else { "" };
                        out.push(mk(AccForm::Load(format!("textureLoad({n}, {}{arr}, 0)", coords_i(dim))), None, "tex_load"));
                    }
                    if !multi {
                        for (si, s) in sh.globals.iter().enumerate() {
                            if matches!(s.kind, GKind::Samp { cmp: true }) {
                                let arr = if arrayed { ", 0" } else { "" };
                                out.push(mk(
                                    AccForm::Load(format!("textureSampleCompareLevel({n}, {}, {}{arr}, 0.5)", s.name, coords_f(dim))),
                                    Some(si),
                                    "tex_sample_compare",
                                ));
                                break;
                            }
                        }
                    }
                }
                Tex::Storage { dim, arrayed, fmt, access } => {
                    let arr = if arrayed { ", 0" } else { "" };
                    match access {
                        Acc::Read | Acc::ReadWrite => {
                            out.push(mk(AccForm::Load(format!("textureLoad({n}, {}{arr})", coords_i(dim))), None, "stex_load"));
                        }
                        _ => {}
                    }
                    match access {
                        Acc::Write | Acc::ReadWrite => {
                            out.push(mk(
                                AccForm::Store(format!("textureStore({n}, {}{arr}, {})", coords_i(dim), texel_value(fmt)), String::new()),
                                None,
                                "stex_store",
                            ));
                        }
                        _ => {}
                    }
                    if access == Acc::Atomic {
                        let (name, sc) = STORAGE_FORMATS[fmt];
                        let v = if name == "r64uint" { "1lu".to_string() } else { sc.lit(1) };
                        out.push(mk(
                            AccForm::Store(format!("textureAtomicMax({n}, {}{arr}, {v})", coords_i(dim)), String::new()),
                            None,
                            "stex_atomic",
                        ));
                    }
                }
            }
        }
        GKind::Samp { cmp } => {
            // a sampler can only be accessed together with a texture
            for (ti, t) in sh.globals.iter().enumerate() {
                match (&t.kind, cmp) {
                    (GKind::Tex(Tex::Sampled { dim, arrayed, sc: Sc::F32, multi: false }), false) if *dim != Dim::D1 => {
                        let arr = if *arrayed { ", 0" } else { "" };
                        out.push(mk(
                            AccForm::Load(format!("textureSampleLevel({}, {n}, {}{arr}, 0.0)", t.name, coords_f(*dim))),
                            Some(ti),
                            "sampler_sample_level",
                        ));
                    }
                    (GKind::Tex(Tex::Depth { dim, arrayed, multi: false }), true) => {
                        let arr = if *arrayed { ", 0" } else { "" };
                        out.push(mk(
                            AccForm::Load(format!("textureSampleCompareLevel({}, {n}, {}{arr}, 0.5)", t.name, coords_f(*dim))),
                            Some(ti),
                            "sampler_compare",
                        ));
                    }
                    _ => {}
                }
                if out.len() >= 2 {
                    break;
                }
            }
        }
    }
    out
}

// ---------------------------------------------------------------------------------------------
// statements

pub struct BodyCtx<'a> {
    pub sh: &'a Shader,
    /// globals that may be accessed from this body
    pub globals: Vec<usize>,
    /// callable helper indices
    pub callees: Vec<usize>,
    pub max_depth: usize,
}

pub fn gen_block(ch: &mut Ch, cx: &BodyCtx, n_range: (usize, usize), depth: usize) -> Vec<Stmt> {
    let n = ch.usize_range(n_range.0, n_range.1);
    let mut out = Vec::new();
    for _ in 0..n {
        out.push(gen_stmt(ch, cx, depth));
    }
    out
}

fn gen_stmt(ch: &mut Ch, cx: &BodyCtx, depth: usize) -> Stmt {
    let can_nest = depth < cx.max_depth;
    let w = [
        if cx.globals.is_empty() { 0 } else { 5u32 },
        if cx.callees.is_empty() { 0 } else { 5 },
        if can_nest { 4 } else { 0 },
    ];
    if w.iter().sum::<u32>() == 0 {
        ch.raw();
        return Stmt::Block(vec![]);
    }
    match ch.weighted(&w) {
        0 => {
            let gi = *ch.pick(&cx.globals);
            let opts = access_options(cx.sh, gi);
            if opts.is_empty() {
                ch.raw();
                Stmt::Block(vec![])
            } else {
                Stmt::Acc(ch.pick(&opts).clone())
            }
        }
        1 => {
            let f = *ch.pick(&cx.callees);
            const FORMS: [CallForm; 10] = [
                CallForm::Stmt,
                CallForm::Let,
                CallForm::Operand,
                CallForm::Arg,
                CallForm::Nested,
                CallForm::Cond,
                CallForm::Ret,
                CallForm::Selector,
                CallForm::ForCond,
                CallForm::BreakIf,
            ];
            Stmt::Call { f, form: *ch.pick(&FORMS) }
        }
        _ => {
            let inner = (1usize, 2usize);
            match ch.below(7) {
                0 => Stmt::If { a: gen_block(ch, cx, inner, depth + 1), r: vec![] },
                1 => Stmt::If { a: gen_block(ch, cx, (0, 1), depth + 1), r: gen_block(ch, cx, inner, depth + 1) },
                2 => Stmt::Loop { body: gen_block(ch, cx, (0, 1), depth + 1), cont: gen_block(ch, cx, inner, depth + 1) },
                3 => Stmt::For(gen_block(ch, cx, inner, depth + 1)),
                4 => Stmt::While(gen_block(ch, cx, inner, depth + 1)),
                5 => {
                    let nc = ch.usize_range(1, 3);
                    let cases = (0..nc).map(|_| gen_block(ch, cx, (0, 2), depth + 1)).collect();
                    Stmt::Switch { cases, default: gen_block(ch, cx, (0, 1), depth + 1) }
                }
                _ => Stmt::Block(gen_block(ch, cx, inner, depth + 1)),
            }
        }
    }
}

// ---------------------------------------------------------------------------------------------
// resources

fn gen_tex(ch: &mut Ch, p: &Profile) -> Tex {
    match ch.below(if p.multisampled { 6 } else { 5 }) {
        0 | 1 | 2 => {
            let (dim, arrayed) = *ch.pick(&[
                (Dim::D2, false),
                (Dim::D1, false),
                (Dim::D2, true),
                (Dim::D3, false),
                (Dim::Cube, false),
                (Dim::Cube, true),
            ]);
            Tex::Sampled { dim, arrayed, sc: *ch.pick(&[Sc::F32, Sc::I32, Sc::U32]), multi: false }
        }
        3 | 4 => {
            let (dim, arrayed) = *ch.pick(&[(Dim::D2, false), (Dim::D2, true), (Dim::Cube, false), (Dim::Cube, true)]);
            Tex::Depth { dim, arrayed, multi: false }
        }
        _ => {
            if ch.chance(1, 4) {
                Tex::Depth { dim: Dim::D2, arrayed: false, multi: true }
            } else {
                // multisampled float textures are known finding K1 (see known_findings.json)
                let scs: &[Sc] = if p.avoid_known { &[Sc::I32, Sc::U32] } else { &[Sc::F32, Sc::I32, Sc::U32] };
                Tex::Sampled { dim: Dim::D2, arrayed: false, sc: *ch.pick(scs), multi: true }
            }
        }
    }
}

pub const ATOMIC_FORMATS: [&str; 3] = ["r32uint", "r32sint", "r64uint"];

fn gen_stex(ch: &mut Ch, p: &Profile) -> Tex {
    let (dim, arrayed) = *ch.pick(&[(Dim::D2, false), (Dim::D1, false), (Dim::D2, true), (Dim::D3, false)]);
    let fmt = ch.idx(STORAGE_FORMATS.len());
    let mut accs = vec![Acc::Write, Acc::Read, Acc::ReadWrite];
    if p.atomic_tex && ATOMIC_FORMATS.contains(&STORAGE_FORMATS[fmt].0) {
        accs.push(Acc::Atomic);
    }
    Tex::Storage { dim, arrayed, fmt, access: *ch.pick(&accs) }
}

/// pick a buffer type + space
fn gen_buffer(ch: &mut Ch, p: &Profile, sh: &Shader) -> GKind {
    // candidate types: host structs, or a bare leaf / array
    let use_struct = !sh.structs.is_empty() && ch.chance(5, 8);
    let host_structs: Vec<usize> = (0..sh.structs.len())
        .filter(|i| sh.structs[*i].members.iter().all(|m| m.io == Io::None) && !Ty::St(*i).has_scalar(Sc::Bool, &sh.structs))
        .collect();
    let mut tp_nobool = p.ty.clone();
    tp_nobool.bools = false;
    let ty = if use_struct && !host_structs.is_empty() {
        Ty::St(*ch.pick(&host_structs))
    } else {
        let nest_ok: Vec<usize> = host_structs
            .iter()
            .copied()
            .filter(|i| !Ty::St(*i).has_rt_array(&sh.structs) && !(p.avoid_known && sh.structs[*i].members.iter().any(|m| m.align_attr.is_some())))
            .collect();
        let mut t = gen_sized_ty(ch, &tp_nobool, &sh.structs, &nest_ok, 0);
        if matches!(t, Ty::At(_)) {
            // a bare atomic as the type of a binding is outside the generator's supported set
            // ("Unsupported type" panic, the source marks it TODO: Support more types)
            t = Ty::A(Box::new(t), 2);
        }
        if p.ty.rt && ch.chance(1, 6) {
            Ty::RA(Box::new(if matches!(t, Ty::St(_)) || !t.has_rt_array(&sh.structs) { t } else { Ty::V(4, Sc::F32) }))
        } else {
            t
        }
    };
    let has_rt = ty.has_rt_array(&sh.structs);
    let has_at = ty.has_atomic(&sh.structs);
    let mut spaces = vec![Space::StorageRW];
    if !has_at {
        spaces.push(Space::StorageR);
        if !has_rt && uniform_ok(&ty, &sh.structs).is_some() {
            spaces.push(Space::Uniform);
            spaces.push(Space::Uniform);
        }
    }
    let space = *ch.pick(&spaces);
    GKind::Buf { space, ty }
}

fn binding_index(ch: &mut Ch, p: &Profile, used: &HashSet<u32>, seq: u32) -> u32 {
    if !p.sparse {
        return seq;
    }
    for _ in 0..8 {
        let b = match ch.below(if p.huge_indices { 8 } else { 6 }) {
            0 | 1 | 2 => seq,
            3 | 4 => ch.below(12),
            5 => ch.range(12, 300),
            6 => *ch.pick(&[u32::MAX, u32::MAX - 1, 1 << 31, 65536, 1 << 16 | 3]),
            _ => ch.raw(),
        };
        if !used.contains(&b) {
            return b;
        }
    }
    // fall back to the first free index
    (0..).find(|b| !used.contains(b)).unwrap()
}

pub fn gen_resources(ch: &mut Ch, p: &Profile, names: &mut Names, sh: &mut Shader) {
    let ngroups = ch.usize_range(p.groups.0, p.groups.1);
    for gr in 0..ngroups as u32 {
        let nb = ch.usize_range(p.bindings.0.max(1), p.bindings.1.max(1));
        let mut used = HashSet::new();
        let mut i = 0;
        while i < nb {
            let b = binding_index(ch, p, &used, i as u32);
            used.insert(b);
            let w = [p.w_buf, p.w_tex, p.w_samp, p.w_stex];
            let kind = match ch.weighted(&w) {
                0 => gen_buffer(ch, p, sh),
                1 => GKind::Tex(gen_tex(ch, p)),
                2 => GKind::Samp { cmp: ch.chance(1, 3) },
                _ => GKind::Tex(gen_stex(ch, p)),
            };
            let prefix = match &kind {
                GKind::Buf { .. } => "buf_",
                GKind::Tex(_) => "tex_",
                GKind::Samp { .. } => "smp_",
            };
            let is_samp = matches!(kind, GKind::Samp { .. });
            let cmp = matches!(kind, GKind::Samp { cmp: true });
            sh.globals.push(Global { name: names.fresh(ch, prefix, p.nonascii), kind, binding: Some((gr, b)) });
            i += 1;
            // give most samplers a texture they can be used with
            if is_samp && ch.chance(6, 8) {
                let b2 = binding_index(ch, p, &used, i as u32);
                used.insert(b2);
                let t = if cmp {
                    Tex::Depth { dim: Dim::D2, arrayed: ch.chance(1, 4), multi: false }
                } else {
                    Tex::Sampled { dim: *ch.pick(&[Dim::D2, Dim::D3, Dim::Cube]), arrayed: false, sc: Sc::F32, multi: false }
                };
                sh.globals.push(Global { name: names.fresh(ch, "tex_", p.nonascii), kind: GKind::Tex(t), binding: Some((gr, b2)) });
                i += 1;
            }
        }
    }
}

fn shuffle<T>(ch: &mut Ch, v: &mut [T]) {
    // Fisher-Yates driven by the choice sequence; all-zero choices = identity
    for i in 0..v.len() {
        let j = i + ch.idx(v.len() - i);
        v.swap(i, j);
    }
}

// ---------------------------------------------------------------------------------------------
// entry-point IO

fn io_scalar(ch: &mut Ch, allow_f64: bool) -> Sc {
    let mut o = vec![Sc::F32, Sc::F32, Sc::I32, Sc::U32];
    if allow_f64 {
        o.push(Sc::F64);
    }
    *ch.pick(&o)
}

fn io_ty(ch: &mut Ch, allow_f64: bool) -> Ty {
    let sc = io_scalar(ch, allow_f64);
    match ch.below(4) {
        0 => Ty::S(sc),
        n => Ty::V(n as u8 + 1, sc),
    }
}

fn distinct_locs(ch: &mut Ch, n: usize, max: u32, sequential_chance: u32) -> Vec<u32> {
    if ch.chance(sequential_chance, 8) {
        return (0..n as u32).collect();
    }
    let mut used = Vec::new();
    while used.len() < n {
        let l = ch.below(max);
        if !used.contains(&l) {
            used.push(l);
        } else {
            let l2 = (0..).find(|x| !used.contains(x)).unwrap();
            used.push(l2);
        }
    }
    used
}

#[derive(Clone, Copy, PartialEq, Eq, Debug)]
pub enum IoRole {
    VertexIn,
    VertexOut,
    FragmentIn,
    FragmentOut,
    ComputeIn,
}

pub fn gen_io_struct(ch: &mut Ch, p: &Profile, names: &mut Names, role: IoRole) -> StructDef {
    let prefix = match role {
        IoRole::VertexIn => "VIn",
        IoRole::VertexOut => "VOut",
        IoRole::FragmentIn => "FIn",
        IoRole::FragmentOut => "FOut",
        IoRole::ComputeIn => "CIn",
    };
    let name = names.fresh(ch, prefix, p.nonascii);
    let mut members = Vec::new();
    let nloc = match role {
        IoRole::ComputeIn => 0,
        IoRole::VertexIn => ch.usize_range(0, 5),
        _ => ch.usize_range(0, 4),
    };
    let max_loc = match role {
        IoRole::FragmentOut => 8,
        _ => 16,
    };
    let locs = distinct_locs(ch, nloc, max_loc, 3);
    for loc in locs {
        let allow_f64 = role == IoRole::VertexIn && p.f64_vertex && p.ty.f64_;
        let ty = match role {
            IoRole::FragmentOut => {
                // colour targets: vec4 of some scalar, or fewer components
                let sc = *ch.pick(&[Sc::F32, Sc::F32, Sc::I32, Sc::U32]);
                match ch.below(3) {
                    0 => Ty::V(4, sc),
                    1 => Ty::S(sc),
                    _ => Ty::V(2, sc),
                }
            }
            _ => io_ty(ch, allow_f64),
        };
        let is_int = !matches!(ty, Ty::S(Sc::F32) | Ty::V(_, Sc::F32) | Ty::S(Sc::F64) | Ty::V(_, Sc::F64));
        let flat = matches!(role, IoRole::VertexOut | IoRole::FragmentIn) && is_int;
        members.push(Member {
            name: names.fresh(ch, "a", p.nonascii),
            ty,
            size_attr: None,
            align_attr: None,
            io: Io::Loc { loc, flat },
        });
    }
    // builtins, inserted at random positions
    let builtins: Vec<(&'static str, Ty)> = match role {
        IoRole::VertexIn => vec![("vertex_index", Ty::S(Sc::U32)), ("instance_index", Ty::S(Sc::U32))],
        IoRole::VertexOut => vec![("position", Ty::V(4, Sc::F32))],
        IoRole::FragmentIn => vec![
            ("position", Ty::V(4, Sc::F32)),
            ("front_facing", Ty::S(Sc::Bool)),
            ("sample_index", Ty::S(Sc::U32)),
            ("sample_mask", Ty::S(Sc::U32)),
        ],
        IoRole::FragmentOut => vec![("frag_depth", Ty::S(Sc::F32)), ("sample_mask", Ty::S(Sc::U32))],
        IoRole::ComputeIn => vec![
            ("global_invocation_id", Ty::V(3, Sc::U32)),
            ("local_invocation_id", Ty::V(3, Sc::U32)),
            ("local_invocation_index", Ty::S(Sc::U32)),
            ("workgroup_id", Ty::V(3, Sc::U32)),
            ("num_workgroups", Ty::V(3, Sc::U32)),
        ],
    };
    for (b, ty) in builtins {
        let must = (role == IoRole::VertexOut && b == "position") || (members.is_empty() && b == "global_invocation_id");
        if must || ch.chance(2, 8) {
            let pos = ch.idx(members.len() + 1);
            members.insert(
                pos,
                Member { name: names.fresh(ch, "b", p.nonascii), ty, size_attr: None, align_attr: None, io: Io::Builtin(b.to_string()) },
            );
        }
    }
    if members.is_empty() {
        // structs cannot be empty
        let (b, ty): (&'static str, Ty) = match role {
            IoRole::VertexIn => ("vertex_index", Ty::S(Sc::U32)),
            IoRole::FragmentIn => ("position", Ty::V(4, Sc::F32)),
            IoRole::FragmentOut => ("frag_depth", Ty::S(Sc::F32)),
            _ => unreachable!(),
        };
        members.push(Member { name: names.fresh(ch, "b", p.nonascii), ty, size_attr: None, align_attr: None, io: Io::Builtin(b.to_string()) });
    }
    StructDef { name, members }
}

// ---------------------------------------------------------------------------------------------
// whole shader

pub fn gen_shader(ch: &mut Ch, p: &Profile) -> Shader {
    let mut names = Names::new();
    names.keywords = p.keyword_names;
    for r in ["acc", "x", "out_value"] {
        names.reserve(r);
    }
    let mut sh = Shader::default();

    // host structs
    let ns = ch.usize_range(p.host_structs.0, p.host_structs.1);
    for _ in 0..ns {
        let sd = gen_host_struct(ch, p, &mut names, &sh.structs, true);
        sh.structs.push(sd);
    }
    let n_host = sh.structs.len();

    // resources
    gen_resources(ch, p, &mut names, &mut sh);

    // other module-scope variables
    let sized_no_atomic: Vec<usize> =
        (0..n_host).filter(|i| !Ty::St(*i).has_rt_array(&sh.structs) && !Ty::St(*i).has_atomic(&sh.structs)).collect();
    let push_ok: Vec<usize> = sized_no_atomic.iter().copied().filter(|i| !Ty::St(*i).has_scalar(Sc::Bool, &sh.structs) && !Ty::St(*i).has_scalar(Sc::F64, &sh.structs)).collect();
    let sized: Vec<usize> = (0..n_host).filter(|i| !Ty::St(*i).has_rt_array(&sh.structs)).collect();
    // element/nesting candidates exclude structs aligned by an explicit @align (known finding K5)
    let k5 = |i: &usize| !(p.avoid_known && sh.structs[*i].members.iter().any(|m| m.align_attr.is_some()));
    let sized_nest: Vec<usize> = sized.iter().copied().filter(|i| k5(i)).collect();
    let sized_no_atomic_nest: Vec<usize> = sized_no_atomic.iter().copied().filter(|i| k5(i)).collect();
    if ch.chance(p.push, 8) {
        let ty = if !push_ok.is_empty() && ch.flip() {
            Ty::St(*ch.pick(&push_ok))
        } else {
            let mut tp = p.ty.clone();
            tp.atomic = false;
            tp.f64_ = false;
            tp.bools = false;
            gen_sized_ty(ch, &tp, &sh.structs, &[], 0)
        };
        // push constants may not contain f64 in naga? (they may) -- keep whatever naga accepts; pre-flight measures
        sh.globals.push(Global { name: names.fresh(ch, "pc_", p.nonascii), kind: GKind::Buf { space: Space::Push, ty }, binding: None });
    }
    if ch.chance(p.private, 8) {
        let ty = if !sized_no_atomic.is_empty() && ch.flip() {
            Ty::St(*ch.pick(&sized_no_atomic))
        } else {
            let mut tp = p.ty.clone();
            tp.atomic = false;
            gen_sized_ty(ch, &tp, &sh.structs, &sized_no_atomic_nest, 0)
        };
        sh.globals.push(Global { name: names.fresh(ch, "prv_", p.nonascii), kind: GKind::Buf { space: Space::Private, ty }, binding: None });
    }
    let has_compute_possible = p.entries[2].1 > 0;
    if has_compute_possible && ch.chance(p.workgroup, 8) {
        let ty = if !sized.is_empty() && ch.flip() { Ty::St(*ch.pick(&sized)) } else { gen_sized_ty(ch, &p.ty, &sh.structs, &sized_nest, 0) };
        sh.globals.push(Global { name: names.fresh(ch, "wg_", p.nonascii), kind: GKind::Buf { space: Space::Workgroup, ty }, binding: None });
    }

    // overrides; a workgroup array whose length is an override
    if ch.chance(p.overrides, 8) {
        let n = ch.usize_range(0, 2);
        let mut ids: Vec<u16> = Vec::new();
        // names of their own (no keywords): other generators merge overrides named ov_*, in, dyn, ...
        let kw = std::mem::replace(&mut names.keywords, 0);
        for _ in 0..n {
            let ty = *ch.pick(&[Sc::U32, Sc::I32, Sc::F32, Sc::Bool]);
            let id = if ch.chance(1, 4) {
                let v = ch.range(0, 40) as u16;
                if ids.contains(&v) {
                    None
                } else {
                    ids.push(v);
                    Some(v)
                }
            } else {
                None
            };
            let init = if ch.chance(6, 8) { Some(ty.lit(ch.range(1, 8))) } else { None };
            sh.overrides.push(OverrideDef { name: names.fresh(ch, "govr_", 0), id, ty, init });
        }
        // the one that sizes workgroups and arrays
        sh.overrides.push(OverrideDef { name: names.fresh(ch, "govn_", 0), id: None, ty: Sc::U32, init: Some(format!("{}u", ch.range(1, 8))) });
        names.keywords = kw;
        if has_compute_possible && ch.chance(p.ov_sized_array, 8) {
            let ov = sh.overrides.last().unwrap().name.clone();
            let elem = if !sized.is_empty() && ch.chance(5, 8) {
                Ty::St(*ch.pick(&sized))
            } else {
                let mut tp = p.ty.clone();
                tp.arrays = false;
                gen_sized_ty(ch, &tp, &sh.structs, &sized_nest, 1)
            };
            let name = names.fresh(ch, "wgo_", p.nonascii);
            sh.ov_sized.push((name.clone(), ov));
            sh.globals.push(Global { name, kind: GKind::Buf { space: Space::Workgroup, ty: Ty::A(Box::new(elem), 4) }, binding: None });
        }
    }

    // declaration order
    sh.global_order = (0..sh.globals.len()).collect();
    if p.shuffle_decl {
        shuffle(ch, &mut sh.global_order);
    }

    // unused / function-local structs
    let nu = ch.usize_range(p.unused_structs.0, p.unused_structs.1);
    for _ in 0..nu {
        let mut pp = p.clone();
        pp.ty.rt = false;
        pp.ty.atomic = false;
        let mut sd = gen_host_struct(ch, &pp, &mut names, &sh.structs[..n_host], false);
        sd.name = names.fresh(ch, "Unused", p.nonascii);
        sh.structs.push(sd);
    }

    // helper functions
    let many = p.many_funcs > 0 && ch.chance(p.many_funcs, 64);
    let nf = if many { ch.usize_range(65, 140) } else { ch.usize_range(p.funcs.0, p.funcs.1) };
    let helper_globals: Vec<usize> = (0..sh.globals.len())
        .filter(|i| !matches!(sh.globals[*i].kind, GKind::Buf { space: Space::Workgroup, .. }))
        .collect();
    // the many small helpers draw from their own stream, expanded from one choice: the choice
    // sequence of a case is far too short for a hundred function bodies
    let many_store: Vec<u32> = if many {
        let seed = ch.raw() as u64;
        (0..8000u64).map(|i| (crate::chooser::mix(seed, i) >> 32) as u32).collect()
    } else {
        Vec::new()
    };
    let mut many_ch = Ch::new(&many_store);
    fn gen_helper(chx: &mut Ch, names: &mut Names, sh: &Shader, p: &Profile, helper_globals: &[usize], fi: usize, many: bool) -> Func {
        let name = names.fresh(chx, "fn_", p.nonascii);
        let ret = chx.chance(5, 8);
        let cx = BodyCtx { sh, globals: helper_globals.to_vec(), callees: (0..fi).collect(), max_depth: if many { 1 } else { p.depth } };
        let body = gen_block(chx, &cx, if many { (0, p.stmts.1.min(2)) } else { p.stmts }, 0);
        Func { name, ret, body }
    }
    for fi in 0..nf {
        let f = if many { gen_helper(&mut many_ch, &mut names, &sh, p, &helper_globals, fi, true) } else { gen_helper(ch, &mut names, &sh, p, &helper_globals, fi, false) };
        sh.funcs.push(f);
    }

    // some otherwise unused structs become function-local data
    for si in n_host..sh.structs.len() {
        if !sh.funcs.is_empty() && !Ty::St(si).has_atomic(&sh.structs) && !Ty::St(si).has_rt_array(&sh.structs) && ch.chance(3, 8) {
            let fi = ch.idx(sh.funcs.len());
            let name = sh.structs[si].name.clone();
            sh.funcs[fi].body.push(Stmt::Raw(format!("var local_{si}: {name};")));
        }
    }

    // entry points
    let mut shared_vin: Vec<usize> = Vec::new();
    for (si, stage) in Stage::ALL.iter().enumerate() {
        let ne = ch.usize_range(p.entries[si].0, p.entries[si].1);
        for _ in 0..ne {
            let prefix = match stage {
                Stage::Vertex => "vs_",
                Stage::Fragment => "fs_",
                Stage::Compute => "cs_",
            };
            let name = names.fresh(ch, prefix, p.nonascii);
            let mut params = Vec::new();
            let mut result = EResult::None;
            let mut wg = vec![];
            match stage {
                Stage::Vertex => {
                    let nsp = if p.io_structs { ch.usize_range(p.vertex_struct_params.0, p.vertex_struct_params.1) } else { 0 };
                    let mut used_locs: Vec<u32> = Vec::new();
                    let mut used_builtins: Vec<&'static str> = Vec::new();
                    let mut used_structs: Vec<usize> = Vec::new();
                    for _ in 0..nsp {
                        // reuse a previously generated vertex input struct when compatible
                        let reuse: Vec<usize> = shared_vin
                            .iter()
                            .copied()
                            .filter(|s| {
                                !used_structs.contains(s)
                                    && sh.structs[*s].members.iter().all(|m| match &m.io {
                                        Io::Loc { loc, .. } => !used_locs.contains(loc),
                                        Io::Builtin(b) => !used_builtins.contains(&b.as_str()),
                                        Io::None => true,
                                    })
                            })
                            .collect();
                        let st = if !reuse.is_empty() && ch.chance(3, 8) {
                            *ch.pick(&reuse)
                        } else {
                            let mut sd = gen_io_struct(ch, p, &mut names, IoRole::VertexIn);
                            // make locations/builtins disjoint from what this entry already takes
                            sd.members.retain(|m| match &m.io {
                                Io::Builtin(b) => !used_builtins.contains(&b.as_str()),
                                _ => true,
                            });
                            for m in sd.members.iter_mut() {
                                if let Io::Loc { loc, .. } = &mut m.io {
                                    while used_locs.contains(loc) || sd_loc_dup(&used_locs, *loc) {
                                        *loc += 1;
                                    }
                                    used_locs.push(*loc);
                                }
                            }
                            // re-collect (the loop above already pushed); dedupe inside the struct
                            dedupe_locs(&mut sd);
                            if sd.members.is_empty() {
                                sd.members.push(Member {
                                    name: names.fresh(ch, "a", p.nonascii),
                                    ty: Ty::V(2, Sc::F32),
                                    size_attr: None,
                                    align_attr: None,
                                    io: Io::Loc { loc: next_free(&used_locs), flat: false },
                                });
                            }
                            sh.structs.push(sd);
                            shared_vin.push(sh.structs.len() - 1);
                            sh.structs.len() - 1
                        };
                        for m in &sh.structs[st].members {
                            match &m.io {
                                Io::Loc { loc, .. } => {
                                    if !used_locs.contains(loc) {
                                        used_locs.push(*loc)
                                    }
                                }
                                Io::Builtin(b) => used_builtins.push(leak(b)),
                                Io::None => {}
                            }
                        }
                        used_structs.push(st);
                        params.push(EParam::Struct { name: names.fresh(ch, "p", 0), st });
                    }
                    for b in ["vertex_index", "instance_index"] {
                        if !used_builtins.contains(&b) && ch.chance(1, 8) {
                            params.push(EParam::Builtin { name: names.fresh(ch, "p", 0), builtin: b.to_string(), ty: Ty::S(Sc::U32) });
                            used_builtins.push(b);
                        }
                    }
                    shuffle(ch, &mut params);
                    result = if p.io_structs && ch.chance(4, 8) {
                        let sd = gen_io_struct(ch, p, &mut names, IoRole::VertexOut);
                        sh.structs.push(sd);
                        EResult::Struct(sh.structs.len() - 1)
                    } else {
                        EResult::Builtin { builtin: "position".to_string(), ty: Ty::V(4, Sc::F32) }
                    };
                }
                Stage::Fragment => {
                    if p.io_structs && ch.chance(4, 8) {
                        // fragment input: a fresh struct, or an existing vertex output struct
                        let vouts: Vec<usize> = sh
                            .entries
                            .iter()
                            .filter_map(|e| match (&e.stage, &e.result) {
                                (Stage::Vertex, EResult::Struct(i)) => Some(*i),
                                _ => None,
                            })
                            .collect();
                        let st = if !vouts.is_empty() && ch.chance(3, 8) {
                            *ch.pick(&vouts)
                        } else {
                            let sd = gen_io_struct(ch, p, &mut names, IoRole::FragmentIn);
                            sh.structs.push(sd);
                            sh.structs.len() - 1
                        };
                        params.push(EParam::Struct { name: names.fresh(ch, "p", 0), st });
                    } else if ch.chance(2, 8) {
                        params.push(EParam::Builtin { name: names.fresh(ch, "p", 0), builtin: "position".to_string(), ty: Ty::V(4, Sc::F32) });
                    }
                    result = match ch.below(if p.io_structs { 5 } else { 3 }) {
                        0 => EResult::Loc { loc: 0, ty: Ty::V(4, Sc::F32) },
                        1 => EResult::None,
                        2 => EResult::Builtin { builtin: "frag_depth".to_string(), ty: Ty::S(Sc::F32) },
                        3 => EResult::Loc { loc: ch.below(8), ty: Ty::V(4, *ch.pick(&[Sc::F32, Sc::I32, Sc::U32])) },
                        _ => {
                            let sd = gen_io_struct(ch, p, &mut names, IoRole::FragmentOut);
                            sh.structs.push(sd);
                            EResult::Struct(sh.structs.len() - 1)
                        }
                    };
                    // the result may be a struct that is also an entry parameter (this entry's own
                    // input or another entry's): only float members at plain locations qualify
                    if p.io_structs {
                        let mut cand: Vec<usize> = params.iter().filter_map(|q| if let EParam::Struct { st, .. } = q { Some(*st) } else { None }).collect();
                        for e in &sh.entries {
                            for q in &e.params {
                                if let EParam::Struct { st, .. } = q {
                                    cand.push(*st);
                                }
                            }
                        }
                        if p.avoid_known {
                            // a vertex input struct that is also an entry result is known finding K6
                            // (struct not emitted, its vertex impl is): covered by a canary
                            let vin: Vec<usize> = sh
                                .entries
                                .iter()
                                .filter(|e| e.stage == Stage::Vertex)
                                .flat_map(|e| e.params.iter().filter_map(|q| if let EParam::Struct { st, .. } = q { Some(*st) } else { None }))
                                .collect();
                            cand.retain(|st| !vin.contains(st));
                        }
                        cand.retain(|st| {
                            let ms = &sh.structs[*st].members;
                            !ms.is_empty() && ms.iter().all(|m| matches!(m.io, Io::Loc { flat: false, .. }) && matches!(m.ty, Ty::S(Sc::F32) | Ty::V(_, Sc::F32)))
                        });
                        cand.sort();
                        cand.dedup();
                        if !cand.is_empty() && ch.chance(1, 5) {
                            result = EResult::Struct(*ch.pick(&cand));
                        }
                    }
                }
                Stage::Compute => {
                    if p.io_structs && ch.chance(2, 8) {
                        let sd = gen_io_struct(ch, p, &mut names, IoRole::ComputeIn);
                        sh.structs.push(sd);
                        params.push(EParam::Struct { name: names.fresh(ch, "p", 0), st: sh.structs.len() - 1 });
                    } else if ch.chance(3, 8) {
                        params.push(EParam::Builtin { name: names.fresh(ch, "p", 0), builtin: "global_invocation_id".to_string(), ty: Ty::V(3, Sc::U32) });
                    }
                    let nd = ch.usize_range(1, 3);
                    for _ in 0..nd {
                        let v = *ch.pick(&[1u32, 2, 4, 8, 16, 3, 64]);
                        wg.push(WgDim::Lit(v));
                    }
                    if p.wg_override > 0 {
                        if let Some(ov) = sh.overrides.iter().rev().find(|o| o.ty == Sc::U32 && o.init.is_some()) {
                            if ch.chance(p.wg_override, 8) {
                                let k = ch.idx(wg.len());
                                wg[k] = WgDim::Override(ov.name.clone());
                            }
                        }
                    }
                    // keep the product within naga/wgpu's typical limit of 256*... (naga does not check)
                }
            }
            let globals: Vec<usize> = (0..sh.globals.len())
                .filter(|i| *stage == Stage::Compute || !matches!(sh.globals[*i].kind, GKind::Buf { space: Space::Workgroup, .. }))
                .collect();
            let mut body = {
                let cx = BodyCtx { sh: &sh, globals, callees: (0..sh.funcs.len()).collect(), max_depth: p.depth };
                gen_block(ch, &cx, p.stmts, 0)
            };
            if many && many_ch.flip() {
                // an entry point that reaches a large part of the many helpers
                let k = many_ch.usize_range(16, sh.funcs.len());
                for _ in 0..k {
                    body.push(Stmt::Call { f: many_ch.idx(sh.funcs.len()), form: CallForm::Stmt });
                }
            }
            sh.entries.push(Entry { stage: *stage, name, params, result, wg, body });
        }
    }
    if p.phony_refs > 0 {
        let res: Vec<usize> = (0..sh.globals.len()).filter(|i| sh.globals[*i].binding.is_some()).collect();
        if !res.is_empty() {
            let mut k = 0;
            let n_f = sh.funcs.len();
            for bi in 0..(n_f + sh.entries.len()) {
                if !ch.chance(p.phony_refs, 8) {
                    continue;
                }
                let gi = *ch.pick(&res);
                let name = sh.globals[gi].name.clone();
                let stmt = match &sh.globals[gi].kind {
                    GKind::Buf { .. } => {
                        k += 1;
                        format!("let phony_{k} = &{name};")
                    }
                    _ => format!("_ = {name};"),
                };
                if bi < n_f {
                    sh.funcs[bi].body.push(Stmt::Raw(stmt));
                } else {
                    sh.entries[bi - n_f].body.push(Stmt::Raw(stmt));
                }
            }
        }
    }
    // entry points of different stages are interleaved in declaration order
    shuffle(ch, &mut sh.entries);
    if p.vin_as_storage > 0 {
        for st in shared_vin.clone() {
            if ch.chance(p.vin_as_storage, 8) && !sh.structs[st].members.iter().any(|m| matches!(m.io, Io::Builtin(_))) {
                let used: HashSet<u32> = sh.globals.iter().filter_map(|g| g.binding).filter(|b| b.0 == 0).map(|b| b.1).collect();
                let b = (0..).find(|b| !used.contains(b)).unwrap();
                // ... or the element type of a workgroup array whose length is an override: the struct is
                // then host-visible through a variable that is not a binding
                let ovn = sh.overrides.iter().rev().find(|o| o.ty == Sc::U32 && o.init.is_some()).map(|o| o.name.clone());
                if let (Some(ov), true) = (ovn, p.ov_sized_array > 0 && has_compute_possible && ch.chance(3, 8)) {
                    let name = names.fresh(ch, "wgv_", p.nonascii);
                    sh.ov_sized.push((name.clone(), ov));
                    sh.globals.push(Global { name, kind: GKind::Buf { space: Space::Workgroup, ty: Ty::A(Box::new(Ty::St(st)), 4) }, binding: None });
                    sh.global_order.push(sh.globals.len() - 1);
                    continue;
                }
                let ty = match ch.below(3) {
                    0 => Ty::St(st),
                    1 => Ty::A(Box::new(Ty::St(st)), 2),
                    _ => Ty::A(Box::new(Ty::A(Box::new(Ty::St(st)), 2)), 3),
                };
                sh.globals.push(Global { name: names.fresh(ch, "vbuf_", p.nonascii), kind: GKind::Buf { space: Space::StorageR, ty }, binding: Some((0, b)) });
                sh.global_order.push(sh.globals.len() - 1);
            }
        }
    }
    if p.out_as_storage > 0 {
        let outs: Vec<usize> = sh.entries.iter().filter_map(|e| if let EResult::Struct(i) = &e.result { Some(*i) } else { None }).collect();
        for st in outs {
            // a result struct made of builtins only would become a Rust struct without fields
            let has_field = sh.structs[st].members.iter().any(|m| !matches!(m.io, Io::Builtin(_)));
            if ch.chance(p.out_as_storage, 8) && has_field {
                let used: HashSet<u32> = sh.globals.iter().filter_map(|g| g.binding).filter(|b| b.0 == 0).map(|b| b.1).collect();
                let b = (0..).find(|b| !used.contains(b)).unwrap();
                let ty = match ch.below(3) {
                    0 => Ty::St(st),
                    1 => Ty::A(Box::new(Ty::St(st)), 2),
                    _ => {
                        let name = names.fresh(ch, "Wrap", p.nonascii);
                        let m = names.fresh(ch, "m", p.nonascii);
                        sh.structs.push(StructDef { name, members: vec![Member::plain(&m, Ty::St(st))] });
                        Ty::St(sh.structs.len() - 1)
                    }
                };
                sh.globals.push(Global { name: names.fresh(ch, "obuf_", p.nonascii), kind: GKind::Buf { space: Space::StorageR, ty }, binding: Some((0, b)) });
                sh.global_order.push(sh.globals.len() - 1);
            }
        }
    }
    if ch.chance(p.shuffle_items, 8) {
        sh.item_shuffle = (ch.raw() as u64) << 1 | 1;
    }
    if ch.chance(p.struct_helpers, 8) {
        // helper functions whose parameter and result are a struct (entry parameter structs and host
        // structs: constructible ones), a helper with a pointer parameter and a const_assert
        let cands: Vec<usize> = (0..sh.structs.len())
            .filter(|i| !Ty::St(*i).has_atomic(&sh.structs) && !Ty::St(*i).has_rt_array(&sh.structs))
            .filter(|i| !sh.structs[*i].members.is_empty())
            .collect();
        let n = ch.usize_range(1, 3).min(cands.len());
        // function names are not drawn from the keyword list (other generators merge items named so)
        let kw = std::mem::replace(&mut names.keywords, 0);
        for _ in 0..n {
            let si = *ch.pick(&cands);
            let sn = sh.structs[si].name.clone();
            let f = names.fresh(ch, "sh_", 0);
            match ch.below(3) {
                0 => sh.raw_items.push(format!("fn {f}(v: {sn}) -> {sn} {{\n    return v;\n}}")),
                1 => sh.raw_items.push(format!("fn {f}(v: {sn}) -> {sn} {{\n    var c = v;\n    return c;\n}}")),
                _ => sh.raw_items.push(format!("fn {f}(p: ptr<function, {sn}>) -> {sn} {{\n    return *p;\n}}")),
            }
        }
        let f = names.fresh(ch, "ptr_", 0);
        sh.raw_items.push(format!("fn {f}(p: ptr<function, f32>, q: ptr<private, f32>) {{\n    *p = *p + *q;\n}}"));
        sh.raw_items.push("const_assert 1 + 1 == 2;".to_string());
        names.keywords = kw;
    }
    if ch.chance(p.aliases, 8) {
        // candidate types: everything that occurs as a member, element, variable or parameter type
        let mut cands: Vec<Ty> = Vec::new();
        fn add(t: &Ty, out: &mut Vec<Ty>) {
            if !out.contains(t) {
                out.push(t.clone());
            }
            if let Ty::A(e, _) | Ty::RA(e) = t {
                add(e, out);
            }
        }
        for sd in &sh.structs {
            for m in &sd.members {
                add(&m.ty, &mut cands);
            }
        }
        for g in &sh.globals {
            if let GKind::Buf { ty, .. } = &g.kind {
                add(ty, &mut cands);
            }
        }
        for e in &sh.entries {
            for prm in &e.params {
                if let EParam::Loc { ty, .. } = prm {
                    add(ty, &mut cands);
                }
            }
        }
        for o in &sh.overrides {
            add(&Ty::S(o.ty), &mut cands);
        }
        let n = ch.usize_range(1, 3).min(cands.len());
        for _ in 0..n {
            let i = ch.idx(cands.len());
            let ty = cands.remove(i);
            let uses = if ch.flip() { u32::MAX } else { ch.raw() | 1 };
            sh.aliases.push(AliasDef { name: names.fresh(ch, "Al", 0), ty, uses });
        }
    }
    if p.use_all_resources && !sh.entries.is_empty() {
        let reached: std::collections::BTreeSet<usize> = crate::expect::entry_reach(&sh).into_iter().flatten().collect();
        for gi in 0..sh.globals.len() {
            if reached.contains(&gi) || sh.globals[gi].binding.is_none() {
                continue;
            }
            let opts = access_options(&sh, gi);
            if opts.is_empty() {
                continue;
            }
            let a = ch.pick(&opts).clone();
            let ei = ch.idx(sh.entries.len());
            sh.entries[ei].body.push(Stmt::Acc(a));
        }
    }
    sh
}

fn leak(s: &str) -> &'static str {
    // builtin names come from a fixed small table
    const NAMES: [&str; 12] = ["vertex_index", "instance_index", "position", "front_facing", "sample_index", "sample_mask", "frag_depth", "global_invocation_id", "local_invocation_id", "local_invocation_index", "workgroup_id", "num_workgroups"];
    NAMES.iter().find(|n| **n == s).copied().unwrap_or("other")
}

fn sd_loc_dup(_used: &[u32], _loc: u32) -> bool {
    false
}

fn next_free(used: &[u32]) -> u32 {
    (0..).find(|x| !used.contains(x)).unwrap()
}

fn dedupe_locs(sd: &mut StructDef) {
    let mut seen: Vec<u32> = Vec::new();
    for m in sd.members.iter_mut() {
        if let Io::Loc { loc, .. } = &mut m.io {
            while seen.contains(loc) {
                *loc += 1;
            }
            seen.push(*loc);
        }
    }
}
