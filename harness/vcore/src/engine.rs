//! Common plumbing: seeds, proptest runners over choice sequences, evidence, replay files, known
//! findings, exit codes.

use crate::chooser::mix;
use proptest::strategy::{Strategy, ValueTree};
use proptest::test_runner::{Config, RngAlgorithm, RngSeed, TestCaseError, TestError, TestRng, TestRunner};
use serde_json::{json, Value};
use std::collections::{BTreeMap, HashSet};
use std::path::{Path, PathBuf};
use std::time::Instant;

pub const VERIF_DIR: &str = "/verif";

#[derive(Clone, Copy, PartialEq, Eq, Debug)]
pub enum Tier {
    Quick,
    Thorough,
}

impl Tier {
    pub fn name(self) -> &'static str {
        match self {
            Tier::Quick => "quick",
            Tier::Thorough => "thorough",
        }
    }
    pub fn pick<T>(self, q: T, t: T) -> T {
        match self {
            Tier::Quick => q,
            Tier::Thorough => t,
        }
    }
}

pub fn env_seed() -> u64 {
    std::env::var("VERIF_SEED").ok().and_then(|s| s.trim().parse::<i64>().ok()).map(|v| v as u64).unwrap_or(20261004)
}

pub fn prop_seed(seed: u64, property: &str, stream: u64) -> u64 {
    mix(mix(seed, crate::chooser::hash_str(property)), stream)
}

pub fn runner(seed: u64, cases: u32, max_shrink_iters: u32) -> TestRunner {
    let cfg = Config {
        cases,
        failure_persistence: None,
        rng_seed: RngSeed::Fixed(seed),
        max_shrink_iters,
        max_local_rejects: 1 << 20,
        max_global_rejects: 1 << 20,
        ..Config::default()
    };
    let mut bytes = [0u8; 32];
    for i in 0..4 {
        bytes[i * 8..i * 8 + 8].copy_from_slice(&mix(seed, i as u64).to_le_bytes());
    }
    TestRunner::new_with_rng(cfg, TestRng::from_seed(RngAlgorithm::ChaCha, &bytes))
}

pub fn choices(min_len: usize, max_len: usize) -> impl Strategy<Value = Vec<u32>> {
    proptest::collection::vec(proptest::num::u32::ANY, min_len..=max_len)
}

pub type Judge<'a> = dyn FnMut(&[u32], &mut Stats) -> Result<(), String> + 'a;

/// Result of a failing in-process search.
pub struct Failure {
    pub choices: Vec<u32>,
    pub message: String,
}

/// In-process property run: proptest generates `cases` choice vectors, calls the judge, and on the
/// first failure shrinks it. Statistics are recorded only before the first failure (the closure is
/// re-run during shrinking).
pub fn run_inprocess(seed: u64, cases: u32, len: (usize, usize), stats: &mut Stats, judge: &mut Judge) -> Option<Failure> {
    let mut r = runner(seed, cases, 4000);
    let strat = choices(len.0, len.1);
    let failed = std::cell::Cell::new(false);
    let scratch = std::cell::RefCell::new(Stats::new());
    let stats_c = std::cell::RefCell::new(stats);
    let judge_c = std::cell::RefCell::new(judge);
    let res = r.run(&strat, |c| {
        let mut j = judge_c.borrow_mut();
        // panics of the code under test are caught inside the Sut adapter; a panic that reaches this
        // point is a defect of the harness itself: infrastructure error (exit 2), never a violation
        let r = std::panic::catch_unwind(std::panic::AssertUnwindSafe(|| {
            if failed.get() {
                (*j)(&c, &mut scratch.borrow_mut())
            } else {
                (*j)(&c, &mut **stats_c.borrow_mut())
            }
        }));
        let r = match r {
            Ok(r) => r,
            Err(e) => {
                let m = e.downcast_ref::<&str>().map(|s| s.to_string()).or(e.downcast_ref::<String>().cloned()).unwrap_or_default();
                let loc = crate::preflight::LAST_PANIC_LOCATION.lock().map(|g| g.clone()).unwrap_or_default();
                let _ = std::fs::write(format!("{VERIF_DIR}/work/harness_panic.json"), serde_json::to_string(&json!({"choices": c, "message": m, "location": loc})).unwrap_or_default());
                eprintln!("HARNESS-PANIC: the judge panicked ({m}) at {loc}; choices saved to work/harness_panic.json");
                std::process::exit(2);
            }
        };
        match r {
            Ok(()) => Ok(()),
            Err(m) => {
                failed.set(true);
                Err(TestCaseError::fail(m))
            }
        }
    });
    match res {
        Ok(()) => None,
        Err(TestError::Fail(reason, value)) => {
            // second shrinking pass on the choice sequence: zero out chunks (all-zero choices are the
            // structurally simplest decisions), which proptest's element-wise shrinking rarely reaches
            let mut j = judge_c.borrow_mut();
            let mut msg = reason.message().to_string();
            let best = zero_chunks(&value, 600, &mut |c| match (*j)(c, &mut scratch.borrow_mut()) {
                Ok(()) => false,
                Err(m) => {
                    msg = m;
                    true
                }
            });
            // the message must belong to the final sequence
            if let Err(m) = (*j)(&best, &mut scratch.borrow_mut()) {
                msg = m;
            }
            Some(Failure { choices: best, message: msg })
        }
        Err(TestError::Abort(reason)) => {
            eprintln!("proptest aborted: {}", reason.message());
            std::process::exit(2);
        }
    }
}

/// Delta-debugging style pass over a failing choice sequence: try to replace chunks by zeros (and to
/// drop a zero tail), keeping every replacement under which the case still fails.
pub fn zero_chunks(choices: &[u32], max_evals: usize, fails: &mut dyn FnMut(&[u32]) -> bool) -> Vec<u32> {
    let mut best = choices.to_vec();
    let mut evals = 0;
    let mut size = best.len().div_ceil(2).max(1);
    loop {
        let mut start = 0;
        while start < best.len() {
            let end = (start + size).min(best.len());
            if best[start..end].iter().any(|x| *x != 0) {
                if evals >= max_evals {
                    return best;
                }
                let mut cand = best.clone();
                for x in &mut cand[start..end] {
                    *x = 0;
                }
                evals += 1;
                if fails(&cand) {
                    best = cand;
                }
            }
            start = end;
        }
        if size == 1 {
            break;
        }
        size = size.div_ceil(2);
    }
    best
}

/// Sample `n` value trees (kept for later shrinking).
pub struct Sampled {
    pub trees: Vec<Box<dyn ValueTree<Value = Vec<u32>>>>,
}

pub fn sample(seed: u64, n: usize, len: (usize, usize)) -> (TestRunner, Sampled) {
    let mut r = runner(seed, n as u32, 4000);
    let strat = choices(len.0, len.1);
    let mut trees: Vec<Box<dyn ValueTree<Value = Vec<u32>>>> = Vec::new();
    for _ in 0..n {
        trees.push(Box::new(strat.new_tree(&mut r).expect("new_tree")));
    }
    (r, Sampled { trees })
}

/// Shrink a failing tree with an external evaluator (`fails(choices) == true` means still failing).
pub fn shrink_tree(tree: &mut dyn ValueTree<Value = Vec<u32>>, max_steps: usize, fails: &mut dyn FnMut(&[u32]) -> bool) -> Vec<u32> {
    let mut best = tree.current();
    let mut steps = 0;
    if !tree.simplify() {
        return best;
    }
    loop {
        if steps >= max_steps {
            break;
        }
        steps += 1;
        let cur = tree.current();
        if fails(&cur) {
            best = cur;
            if !tree.simplify() {
                break;
            }
        } else if !tree.complicate() {
            break;
        }
    }
    best
}

// ---------------------------------------------------------------------------------------------

pub struct Stats {
    pub evaluations: u64,
    pub nontrivial: HashSet<u64>,
    pub classes: BTreeMap<String, u64>,
    pub samples: Vec<Value>,
    pub max_samples: usize,
    pub generator_invalid: u64,
    pub sut_panic: u64,
    pub excluded_known: u64,
    pub skipped: BTreeMap<String, u64>,
    pub extra: BTreeMap<String, Value>,
}

impl Stats {
    pub fn new() -> Self {
        Stats {
            evaluations: 0,
            nontrivial: HashSet::new(),
            classes: BTreeMap::new(),
            samples: Vec::new(),
            max_samples: 4,
            generator_invalid: 0,
            sut_panic: 0,
            excluded_known: 0,
            skipped: BTreeMap::new(),
            extra: BTreeMap::new(),
        }
    }
    pub fn class(&mut self, name: &str) {
        *self.classes.entry(name.to_string()).or_insert(0) += 1;
    }
    pub fn class_if(&mut self, cond: bool, name: &str) {
        if cond {
            self.class(name)
        }
    }
    pub fn skip(&mut self, why: &str) {
        *self.skipped.entry(why.to_string()).or_insert(0) += 1;
    }
    pub fn nontrivial_case(&mut self, hash: u64) {
        self.nontrivial.insert(hash);
    }
    pub fn sample(&mut self, v: impl FnOnce() -> Value) {
        if self.samples.len() < self.max_samples {
            self.samples.push(v());
        }
    }
    /// generator health: more than 2% invalid programs means the harness is broken (exit 2)
    pub fn check_health(&self, property: &str) {
        let total = self.evaluations + self.generator_invalid;
        if total >= 50 && self.generator_invalid * 50 > total {
            eprintln!(
                "HARNESS-UNHEALTHY property={property}: {} of {} generated programs were rejected by the naga pre-flight",
                self.generator_invalid, total
            );
            std::process::exit(2);
        }
        // the generated shaders are valid and inside the documented feature set: a tree that answers
        // a large share of them with an error leaves this property (which speaks about accepted
        // shaders) nothing to judge. That is not a violation of this property (typed errors are C11's
        // and C17's subject) but it must not look like a pass either.
        let rejected: u64 = self.skipped.iter().filter(|(k, _)| k.starts_with("sut_Err")).map(|(_, v)| *v).sum();
        if rejected >= 20 && rejected * 4 > self.evaluations + rejected {
            eprintln!(
                "COVERAGE-COLLAPSED property={property}: the generator returned an error for {rejected} of {} valid generated shaders (e.g. {}); nothing conclusive can be said about this property",
                self.evaluations + rejected,
                self.skipped.iter().find(|(k, _)| k.starts_with("sut_Err")).map(|(k, _)| k.as_str()).unwrap_or("")
            );
            std::process::exit(2);
        }
    }
}

impl Default for Stats {
    fn default() -> Self {
        Self::new()
    }
}

pub struct Run {
    pub property: &'static str,
    pub tier: Tier,
    pub seed: u64,
    pub start: Instant,
    pub level: &'static str,
    pub rule: String,
    pub assumptions: Vec<String>,
    pub exhaustive: bool,
    pub violations: Vec<(String, String)>,
    pub known_hits: Vec<String>,
}

impl Run {
    pub fn new(property: &'static str, tier: Tier) -> Run {
        Run {
            property,
            tier,
            seed: env_seed(),
            start: Instant::now(),
            level: "exploration",
            rule: String::new(),
            assumptions: Vec::new(),
            exhaustive: false,
            violations: Vec::new(),
            known_hits: Vec::new(),
        }
    }
    pub fn seed_for(&self, stream: u64) -> u64 {
        prop_seed(self.seed, self.property, stream)
    }

    /// Write a replay file and register a violation. Returns the path.
    pub fn violation(&mut self, body: Value, message: &str) -> String {
        let dir = PathBuf::from(VERIF_DIR).join("replays").join(self.property);
        let _ = std::fs::create_dir_all(&dir);
        let mut v = body;
        v["property"] = json!(self.property);
        v["tier"] = json!(self.tier.name());
        v["seed"] = json!(self.seed);
        v["message"] = json!(message);
        let text = serde_json::to_string_pretty(&v).unwrap();
        let h = crate::chooser::hash_str(&text);
        let path = dir.join(format!("found-{:016x}.json", h));
        std::fs::write(&path, text).expect("write replay");
        let p = path.to_string_lossy().to_string();
        println!("VIOLATION property={} replay={}", self.property, p);
        println!("  {}", message.lines().next().unwrap_or(""));
        self.violations.push((p.clone(), message.to_string()));
        p
    }

    pub fn known(&mut self, what: &str) {
        println!("KNOWN-FINDING: property={} {}", self.property, what);
        self.known_hits.push(what.to_string());
    }

    /// Evaluate the committed canary inputs of this property's findings (known_findings.json).
    /// known + still failing -> KNOWN-FINDING line (exit code unaffected); fixed + failing -> the
    /// defect has returned: VIOLATION with the canary as replay file. Nothing is ever added to the
    /// findings file at run time.
    pub fn canaries(&mut self, eval: &mut dyn FnMut(&Value) -> Result<(), String>) {
        for f in load_findings(self.property) {
            let Some(c) = &f.canary else { continue };
            let path = Path::new(VERIF_DIR).join(c);
            let v = read_json(&path.to_string_lossy());
            let r = eval(&v);
            match (f.status.as_str(), r) {
                ("known", Err(m)) => {
                    // a known finding is identified by its signature; a different failure of the
                    // same input is a new violation
                    let sig = f.matcher["message_contains"].as_str().unwrap_or("");
                    if m.contains(sig) {
                        self.known(&format!("{} {}", f.id, f.what));
                    } else {
                        let p = path.to_string_lossy().to_string();
                        println!("VIOLATION property={} replay={}", self.property, p);
                        println!("  the canary of known finding {} fails differently than recorded: {}", f.id, m.lines().next().unwrap_or(""));
                        self.violations.push((p, m));
                    }
                }
                ("known", Ok(())) => println!("note: known finding {} ({}) no longer reproduces on this tree", f.id, f.what),
                (_, Err(m)) => {
                    let p = path.to_string_lossy().to_string();
                    println!("VIOLATION property={} replay={}", self.property, p);
                    println!("  regression of fixed finding {}: {}", f.id, m.lines().next().unwrap_or(""));
                    self.violations.push((p, m));
                }
                (_, Ok(())) => {}
            }
        }
    }

    pub fn finish(&self, stats: &Stats) -> ! {
        let mut coverage = json!({
            "evaluations": stats.evaluations,
            "distinct_nontrivial": stats.nontrivial.len(),
            "rule": self.rule,
            "samples": stats.samples,
            "classes": stats.classes,
            "generator_invalid": stats.generator_invalid,
            "sut_panic": stats.sut_panic,
            "excluded_by_known_finding": stats.excluded_known,
            "skipped": stats.skipped,
            "exhaustive": self.exhaustive,
            "known_findings_reported": self.known_hits,
        });
        for (k, v) in &stats.extra {
            coverage[k] = v.clone();
        }
        let created = crate::chooser::CH_CREATED.load(std::sync::atomic::Ordering::Relaxed);
        let exhausted = crate::chooser::CH_EXHAUSTED.load(std::sync::atomic::Ordering::Relaxed);
        coverage["choice_decoders"] = json!(created);
        coverage["choice_decoders_run_past_end"] = json!(exhausted);
        let ev = json!({
            "property_id": self.property,
            "tier": self.tier.name(),
            "seed": self.seed as i64,
            "level": self.level,
            "coverage": coverage,
            "assumptions": self.assumptions,
            "wall_s": self.start.elapsed().as_secs_f64(),
            "violations": self.violations.len(),
        });
        let dir = PathBuf::from(VERIF_DIR).join("evidence");
        let _ = std::fs::create_dir_all(&dir);
        std::fs::write(dir.join(format!("{}.json", self.property)), serde_json::to_string_pretty(&ev).unwrap()).expect("write evidence");
        println!(
            "{} {} seed={} evaluations={} distinct_nontrivial={} generator_invalid={} sut_panic={} violations={} wall={:.1}s",
            self.property,
            self.tier.name(),
            self.seed,
            stats.evaluations,
            stats.nontrivial.len(),
            stats.generator_invalid,
            stats.sut_panic,
            self.violations.len(),
            self.start.elapsed().as_secs_f64()
        );
        println!("  generator health: {exhausted} of {created} choice decoders ran past the end of their sequence");
        if !stats.classes.is_empty() {
            let cl: Vec<String> = stats.classes.iter().map(|(k, v)| format!("{k}={v}")).collect();
            println!("  classes: {}", cl.join(" "));
        }
        if !stats.skipped.is_empty() {
            let cl: Vec<String> = stats.skipped.iter().map(|(k, v)| format!("{k}={v}")).collect();
            println!("  skipped: {}", cl.join(" "));
        }
        std::process::exit(if self.violations.is_empty() { 0 } else { 1 });
    }
}

// ---------------------------------------------------------------------------------------------
// known findings

#[derive(Clone, Debug)]
pub struct Finding {
    pub property: String,
    pub id: String,
    pub status: String,
    pub what: String,
    pub canary: Option<String>,
    pub matcher: Value,
}

pub fn load_findings(property: &str) -> Vec<Finding> {
    let path = Path::new(VERIF_DIR).join("known_findings.json");
    let Ok(text) = std::fs::read_to_string(&path) else { return vec![] };
    let v: Value = serde_json::from_str(&text).unwrap_or_else(|e| {
        eprintln!("known_findings.json does not parse: {e}");
        std::process::exit(2)
    });
    let mut out = Vec::new();
    for f in v["findings"].as_array().cloned().unwrap_or_default() {
        if f["property"].as_str() == Some(property) {
            out.push(Finding {
                property: property.to_string(),
                id: f["id"].as_str().unwrap_or("").to_string(),
                status: f["status"].as_str().unwrap_or("").to_string(),
                what: f["what"].as_str().unwrap_or("").to_string(),
                canary: f["canary"].as_str().map(|s| s.to_string()),
                matcher: f["matcher"].clone(),
            });
        }
    }
    out
}

pub fn read_json(path: &str) -> Value {
    let p = if Path::new(path).is_absolute() { PathBuf::from(path) } else { Path::new(VERIF_DIR).join(path) };
    let text = std::fs::read_to_string(&p).unwrap_or_else(|e| {
        eprintln!("cannot read {}: {e}", p.display());
        std::process::exit(2)
    });
    serde_json::from_str(&text).unwrap_or_else(|e| {
        eprintln!("cannot parse {}: {e}", p.display());
        std::process::exit(2)
    })
}

pub fn choices_from_json(v: &Value) -> Vec<u32> {
    v["choices"].as_array().map(|a| a.iter().map(|x| x.as_u64().unwrap_or(0) as u32).collect()).unwrap_or_default()
}

// ---------------------------------------------------------------------------------------------
// coverage-guided search over the choice sequence (libFuzzer target `wide`)

/// libFuzzer input -> choice sequence: two bytes per choice, spread over the 32 bits so that the
/// chooser's monotone range map (`v * n >> 32`) sees every outcome of ranges up to 65536.
pub fn choices_from_bytes(data: &[u8]) -> Vec<u32> {
    data.chunks(2)
        .map(|c| {
            let hi = c[0] as u32;
            let lo = *c.get(1).unwrap_or(&0) as u32;
            hi << 24 | lo << 16 | hi << 8 | lo
        })
        .collect()
}

pub fn bytes_from_choices(choices: &[u32]) -> Vec<u8> {
    choices.iter().flat_map(|v| [(v >> 24) as u8, (v >> 16) as u8]).collect()
}

/// The in-process judges that are pure functions of (code under test, choice sequence).
pub fn wide_judge(property: &str) -> Option<fn(&dyn crate::sut::Sut, &[u32], &mut Stats) -> Result<(), String>> {
    use crate::props::*;
    Some(match property {
        "C03" => c03::judge_wide,
        "C08" => c08::judge_wide,
        "C09" => c09::judge_wide,
        "C11" => c11::judge_choices,
        "C13" => c13::judge_wide,
        "C16" => c16::judge_choices,
        _ => return None,
    })
}

/// Run libFuzzer (`harness/fuzz`, target `wide`) on the choice sequence of `property`: `jobs`
/// processes of `runs` executions each, from a corpus of `corpus_n` proptest-sampled sequences. An
/// artifact is re-judged in this process; a confirmed failure is shrunk by `zero_chunks` and returned.
pub fn fuzz_choices(run: &Run, stats: &mut Stats, len: (usize, usize), corpus_n: usize, jobs: usize, runs: u64, judge: &mut Judge) -> Option<Failure> {
    let property = run.property;
    let base = PathBuf::from(VERIF_DIR).join("work/fuzz_wide").join(property);
    let _ = std::fs::remove_dir_all(&base);
    let corpus = base.join("corpus");
    let artifacts = base.join("artifacts");
    let logs = base.join("logs");
    for d in [&corpus, &artifacts, &logs] {
        std::fs::create_dir_all(d).expect("fuzz dirs");
    }
    let (_r, sampled) = sample(run.seed_for(78), corpus_n, len);
    for (i, t) in sampled.trees.iter().enumerate() {
        std::fs::write(corpus.join(format!("gen_{i}")), bytes_from_choices(&t.current())).unwrap();
    }
    let seed = (run.seed_for(79) % 0x7fff_ffff).max(1);
    // build first (output ignored unless it fails), then run the binary from the log directory:
    // with -jobs libFuzzer writes fuzz-<k>.log files into the working directory
    let build = std::process::Command::new("cargo")
        .current_dir(format!("{VERIF_DIR}/harness"))
        .env("CARGO_NET_OFFLINE", "true")
        .args(["+nightly", "fuzz", "build", "-s", "none", "--no-cfg-fuzzing", "wide"])
        .output();
    match build {
        Ok(o) if o.status.success() => {}
        Ok(o) => {
            eprintln!("cargo fuzz build wide failed:\n{}", String::from_utf8_lossy(&o.stderr).chars().rev().take(3000).collect::<String>().chars().rev().collect::<String>());
            std::process::exit(2);
        }
        Err(e) => {
            eprintln!("cannot run cargo fuzz: {e}");
            std::process::exit(2);
        }
    }
    // cargo-fuzz run from /verif/harness uses that directory's configured target-dir
    let bin = ["target-harness", "target-fuzz"]
        .iter()
        .map(|t| format!("{VERIF_DIR}/work/{t}/x86_64-unknown-linux-gnu/release/wide"))
        .find(|p| Path::new(p).exists())
        .unwrap_or_else(|| {
            eprintln!("the fuzz target binary `wide` was built but not found under {VERIF_DIR}/work");
            std::process::exit(2)
        });
    let out = std::process::Command::new(&bin)
        .current_dir(&logs)
        .env("VERIF_FUZZ_PROP", property)
        .arg(&corpus)
        .arg(format!("-runs={runs}"))
        .arg(format!("-seed={seed}"))
        .arg(format!("-jobs={jobs}"))
        .arg(format!("-workers={jobs}"))
        .arg(format!("-max_len={}", len.1 * 2))
        .args(["-len_control=0", "-timeout=120", "-rss_limit_mb=4096", "-print_final_stats=1"])
        .arg(format!("-artifact_prefix={}/", artifacts.display()))
        .output();
    let out = match out {
        Ok(o) => o,
        Err(e) => {
            eprintln!("cannot run the fuzz target {bin}: {e}");
            std::process::exit(2);
        }
    };
    let mut execs = 0u64;
    let mut cov = String::new();
    if let Ok(rd) = std::fs::read_dir(&logs) {
        for e in rd.flatten() {
            let t = std::fs::read_to_string(e.path()).unwrap_or_default();
            execs += t.lines().find_map(|l| l.strip_prefix("stat::number_of_executed_units:").and_then(|x| x.trim().parse::<u64>().ok())).unwrap_or(0);
            if let Some(l) = t.lines().rev().find(|l| l.contains(" cov: ")) {
                cov = l.trim().to_string();
            }
        }
    }
    stats.evaluations += execs;
    stats.extra.insert("fuzz_wide_execs".into(), json!(execs));
    stats.extra.insert("fuzz_wide_jobs".into(), json!(jobs));
    stats.extra.insert("fuzz_wide_corpus_seeds".into(), json!(corpus_n));
    stats.extra.insert("fuzz_wide_last_status".into(), json!(cov));
    stats.extra.insert("fuzz_wide_corpus_final".into(), json!(std::fs::read_dir(&corpus).map(|r| r.count()).unwrap_or(0)));
    let mut arts: Vec<PathBuf> = std::fs::read_dir(&artifacts).map(|rd| rd.flatten().map(|e| e.path()).collect()).unwrap_or_default();
    arts.sort();
    if arts.is_empty() {
        if !out.status.success() || execs == 0 {
            eprintln!("the fuzz target failed without an artifact (status {:?}, {execs} executions):\n{}", out.status, String::from_utf8_lossy(&out.stderr).chars().rev().take(2000).collect::<String>().chars().rev().collect::<String>());
            std::process::exit(2);
        }
        return None;
    }
    let mut scratch = Stats::new();
    for a in &arts {
        let choices = choices_from_bytes(&std::fs::read(a).unwrap_or_default());
        if let Err(m) = judge(&choices, &mut scratch) {
            let mut msg = m;
            let best = zero_chunks(&choices, 600, &mut |c| match judge(c, &mut scratch) {
                Ok(()) => false,
                Err(m) => {
                    msg = m;
                    true
                }
            });
            if let Err(m) = judge(&best, &mut scratch) {
                msg = m;
            }
            return Some(Failure { choices: best, message: format!("{msg}\n(found by libFuzzer on the choice sequence)") });
        }
    }
    eprintln!("libFuzzer stopped on an input that is not a violation when re-judged (timeout, OOM or crash): inconclusive. artifacts in {}", artifacts.display());
    std::process::exit(2);
}
