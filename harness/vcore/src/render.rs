//! Model -> WGSL text.

use crate::model::*;
use std::fmt::Write;

pub fn dim_str(dim: Dim, arrayed: bool) -> &'static str {
    match (dim, arrayed) {
        (Dim::D1, _) => "1d",
        (Dim::D2, false) => "2d",
        (Dim::D2, true) => "2d_array",
        (Dim::D3, _) => "3d",
        (Dim::Cube, false) => "cube",
        (Dim::Cube, true) => "cube_array",
    }
}

/// naga concretises attribute arguments as i32 unless suffixed, so large indices need `u`.
pub fn index_lit(v: u32) -> String {
    if v > i32::MAX as u32 {
        format!("{v}u")
    } else {
        v.to_string()
    }
}

pub fn tex_type(t: &Tex) -> String {
    match t {
        Tex::Sampled { dim, arrayed, sc, multi } => {
            if *multi {
                format!("texture_multisampled_2d<{}>", sc.wgsl())
            } else {
                format!("texture_{}<{}>", dim_str(*dim, *arrayed), sc.wgsl())
            }
        }
        Tex::Depth { dim, arrayed, multi } => {
            if *multi {
                "texture_depth_multisampled_2d".to_string()
            } else {
                format!("texture_depth_{}", dim_str(*dim, *arrayed))
            }
        }
        Tex::Storage { dim, arrayed, fmt, access } => {
            let a = match access {
                Acc::Read => "read",
                Acc::Write => "write",
                Acc::ReadWrite => "read_write",
                Acc::Atomic => "atomic",
            };
            format!("texture_storage_{}<{}, {}>", dim_str(*dim, *arrayed), STORAGE_FORMATS[*fmt].0, a)
        }
    }
}

thread_local! {
    static ALIAS_OCC: std::cell::RefCell<Vec<u32>> = const { std::cell::RefCell::new(Vec::new()) };
}

/// WGSL spelling of a type at a declaration site; selected occurrences go through an alias.
pub fn tyw(ty: &Ty, sh: &Shader) -> String {
    for (ai, a) in sh.aliases.iter().enumerate() {
        if &a.ty == ty {
            let k = ALIAS_OCC.with(|o| {
                let mut o = o.borrow_mut();
                if o.len() <= ai {
                    o.resize(ai + 1, 0);
                }
                o[ai] += 1;
                o[ai] - 1
            });
            if a.uses >> (k % 32) & 1 == 1 {
                return a.name.clone();
            }
            break;
        }
    }
    match ty {
        Ty::A(e, n) => format!("array<{}, {}>", tyw(e, sh), n),
        Ty::RA(e) => format!("array<{}>", tyw(e, sh)),
        _ => ty.wgsl(&sh.structs),
    }
}

pub fn global_decl(g: &Global, sh: &Shader) -> String {
    let structs = &sh.structs;
    let attr = match g.binding {
        Some((gr, b)) => format!("@group({}) @binding({}) ", index_lit(gr), index_lit(b)),
        None => String::new(),
    };
    match &g.kind {
        GKind::Buf { space, ty } => {
            let sp = match space {
                Space::Uniform => "<uniform>",
                Space::StorageR => "<storage, read>",
                Space::StorageRW => "<storage, read_write>",
                Space::Private => "<private>",
                Space::Workgroup => "<workgroup>",
                Space::Push => "<push_constant>",
            };
            let _ = structs;
            if let (Some((_, ov)), Ty::A(e, _)) = (sh.ov_sized.iter().find(|(v, _)| v == &g.name), ty) {
                return format!("{attr}var{sp} {}: array<{}, {}>;", g.name, tyw(e, sh), ov);
            }
            format!("{attr}var{sp} {}: {};", g.name, tyw(ty, sh))
        }
        GKind::Tex(t) => format!("{attr}var {}: {};", g.name, tex_type(t)),
        GKind::Samp { cmp } => format!("{attr}var {}: {};", g.name, if *cmp { "sampler_comparison" } else { "sampler" }),
    }
}

fn member_decl(m: &Member, sh: &Shader) -> String {
    let mut s = String::new();
    match &m.io {
        Io::None => {}
        Io::Loc { loc, flat } => {
            write!(s, "@location({loc}) ").unwrap();
            if *flat {
                s.push_str("@interpolate(flat) ");
            }
        }
        Io::Builtin(b) => write!(s, "@builtin({b}) ").unwrap(),
    }
    if let Some(a) = m.align_attr {
        write!(s, "@align({a}) ").unwrap();
    }
    if let Some(z) = m.size_attr {
        write!(s, "@size({z}) ").unwrap();
    }
    write!(s, "{}: {},", m.name, tyw(&m.ty, sh)).unwrap();
    s
}

struct Ctx {
    n: usize,
}

impl Ctx {
    fn fresh(&mut self) -> String {
        self.n += 1;
        format!("v{}", self.n)
    }
}

fn call_expr(sh: &Shader, f: usize) -> String {
    format!("{}(acc)", sh.funcs[f].name)
}

fn render_stmts(sh: &Shader, stmts: &[Stmt], ind: usize, ctx: &mut Ctx, out: &mut String, in_value_fn: bool) {
    let pad = "    ".repeat(ind);
    for s in stmts {
        match s {
            Stmt::Acc(a) => match &a.form {
                AccForm::Load(e) => {
                    let v = ctx.fresh();
                    writeln!(out, "{pad}let {v} = {e};").unwrap();
                }
                AccForm::Store(lhs, rhs) => {
                    if rhs.is_empty() {
                        writeln!(out, "{pad}{lhs};").unwrap();
                    } else {
                        writeln!(out, "{pad}{lhs} = {rhs};").unwrap();
                    }
                }
            },
            Stmt::Call { f, form } => {
                let c = call_expr(sh, *f);
                let is_val = sh.funcs[*f].ret;
                match (form, is_val) {
                    (CallForm::Stmt, _) | (_, false) => writeln!(out, "{pad}{c};").unwrap(),
                    (CallForm::Let, true) => {
                        let v = ctx.fresh();
                        writeln!(out, "{pad}let {v} = {c};").unwrap();
                    }
                    (CallForm::Operand, true) => writeln!(out, "{pad}acc = acc + {c} * 2.0;").unwrap(),
                    (CallForm::Arg, true) => writeln!(out, "{pad}acc = max(acc, abs({c}));").unwrap(),
                    (CallForm::Nested, true) => {
                        writeln!(out, "{pad}acc = {}({c});", sh.funcs[*f].name).unwrap()
                    }
                    (CallForm::Cond, true) => {
                        writeln!(out, "{pad}if ({c} > 0.5) {{ acc = acc + 1.0; }}").unwrap()
                    }
                    (CallForm::Ret, true) => {
                        if in_value_fn {
                            writeln!(out, "{pad}if (acc > 1000.0) {{ return {c}; }}").unwrap()
                        } else {
                            writeln!(out, "{pad}if (acc > 1000.0) {{ acc = {c}; }}").unwrap()
                        }
                    }
                    (CallForm::Selector, true) => writeln!(
                        out,
                        "{pad}switch (i32({c})) {{ case 1: {{ acc = acc + 1.0; }} default: {{ }} }}"
                    )
                    .unwrap(),
                    (CallForm::ForCond, true) => {
                        let v = ctx.fresh();
                        writeln!(out, "{pad}for (var {v} = 0.0; {v} < {c}; {v} += 1.0) {{ break; }}").unwrap()
                    }
                    (CallForm::BreakIf, true) => {
                        writeln!(out, "{pad}loop {{ acc = acc + 1.0; continuing {{ break if {c} > 0.0; }} }}").unwrap()
                    }
                }
            }
            Stmt::If { a, r } => {
                writeln!(out, "{pad}if (acc > 0.5) {{").unwrap();
                render_stmts(sh, a, ind + 1, ctx, out, in_value_fn);
                if r.is_empty() {
                    writeln!(out, "{pad}}}").unwrap();
                } else {
                    writeln!(out, "{pad}}} else {{").unwrap();
                    render_stmts(sh, r, ind + 1, ctx, out, in_value_fn);
                    writeln!(out, "{pad}}}").unwrap();
                }
            }
            Stmt::Loop { body, cont } => {
                let v = ctx.fresh();
                writeln!(out, "{pad}var {v}: i32 = 0;").unwrap();
                writeln!(out, "{pad}loop {{").unwrap();
                writeln!(out, "{pad}    if ({v} >= 2) {{ break; }}").unwrap();
                render_stmts(sh, body, ind + 1, ctx, out, in_value_fn);
                writeln!(out, "{pad}    continuing {{").unwrap();
                writeln!(out, "{pad}        {v} = {v} + 1;").unwrap();
                // `return` is not allowed inside a continuing block
                render_stmts(sh, cont, ind + 2, ctx, out, false);
                writeln!(out, "{pad}    }}").unwrap();
                writeln!(out, "{pad}}}").unwrap();
            }
            Stmt::For(b) => {
                let v = ctx.fresh();
                writeln!(out, "{pad}for (var {v}: i32 = 0; {v} < 2; {v}++) {{").unwrap();
                render_stmts(sh, b, ind + 1, ctx, out, in_value_fn);
                writeln!(out, "{pad}}}").unwrap();
            }
            Stmt::While(b) => {
                let v = ctx.fresh();
                writeln!(out, "{pad}var {v}: i32 = 0;").unwrap();
                writeln!(out, "{pad}while ({v} < 2) {{").unwrap();
                writeln!(out, "{pad}    {v} = {v} + 1;").unwrap();
                render_stmts(sh, b, ind + 1, ctx, out, in_value_fn);
                writeln!(out, "{pad}}}").unwrap();
            }
            Stmt::Switch { cases, default } => {
                writeln!(out, "{pad}switch (i32(acc)) {{").unwrap();
                for (i, c) in cases.iter().enumerate() {
                    // selector lists vary with the position: one selector, two, three (naga lowers a
                    // clause with several selectors to fall-through cases)
                    let sel = match i % 3 {
                        0 => format!("{}", 10 * i + 1),
                        1 => format!("{}, {}", 10 * i + 1, 10 * i + 2),
                        _ => format!("{}, {}, {}", 10 * i + 1, 10 * i + 2, 10 * i + 3),
                    };
                    writeln!(out, "{pad}    case {sel}: {{").unwrap();
                    render_stmts(sh, c, ind + 2, ctx, out, in_value_fn);
                    writeln!(out, "{pad}    }}").unwrap();
                }
                // the default clause shares its body with a selector when the number of cases is odd
                if cases.len() % 2 == 1 {
                    writeln!(out, "{pad}    case 1000, default: {{").unwrap();
                } else {
                    writeln!(out, "{pad}    default: {{").unwrap();
                }
                render_stmts(sh, default, ind + 2, ctx, out, in_value_fn);
                writeln!(out, "{pad}    }}").unwrap();
                writeln!(out, "{pad}}}").unwrap();
            }
            Stmt::Raw(t) => writeln!(out, "{pad}{t}").unwrap(),
            Stmt::Block(b) => {
                writeln!(out, "{pad}{{").unwrap();
                render_stmts(sh, b, ind + 1, ctx, out, in_value_fn);
                writeln!(out, "{pad}}}").unwrap();
            }
        }
    }
}

pub fn render(sh: &Shader) -> String {
    // every module-scope declaration is rendered into its own item; items are then emitted in
    // canonical or permuted order
    let mut items: Vec<(bool, String)> = Vec::new();
    ALIAS_OCC.with(|o| o.borrow_mut().clear());
    macro_rules! item {
        ($is_global:expr, $body:expr) => {{
            let mut out = String::new();
            {
                let out = &mut out;
                $body(out);
            }
            items.push(($is_global, out));
        }};
    }
    for sd in &sh.structs {
        item!(false, |out: &mut String| {
        writeln!(out, "struct {} {{", sd.name).unwrap();
        for (mi, m) in sd.members.iter().enumerate() {
            let mut d = member_decl(m, sh);
            // two outputs at one location = dual source blending: the second carries the attribute
            if let Io::Loc { loc, .. } = &m.io {
                if sd.members[..mi].iter().any(|x| matches!(&x.io, Io::Loc { loc: l2, .. } if l2 == loc)) {
                    d = d.replacen(&format!("@location({loc}) "), &format!("@location({loc}) @second_blend_source "), 1);
                }
            }
            writeln!(out, "    {d}").unwrap();
        }
        writeln!(out, "}}").unwrap();
        });
    }
    for a in &sh.aliases {
        item!(false, |out: &mut String| writeln!(out, "alias {} = {};", a.name, a.ty.wgsl(&sh.structs)).unwrap());
    }
    for r in &sh.raw_items {
        item!(false, |out: &mut String| writeln!(out, "{r}").unwrap());
    }
    for c in &sh.consts {
        item!(false, |out: &mut String| writeln!(out, "const {}{};", c.name, c.decl).unwrap());
    }
    for o in &sh.overrides {
        item!(false, |out: &mut String| {
        let id = o.id.map(|i| format!("@id({i}) ")).unwrap_or_default();
        match &o.init {
            Some(init) => writeln!(out, "{id}override {}: {} = {};", o.name, tyw(&Ty::S(o.ty), sh), init).unwrap(),
            None => writeln!(out, "{id}override {}: {};", o.name, tyw(&Ty::S(o.ty), sh)).unwrap(),
        }
        });
    }
    let order: Vec<usize> = if sh.global_order.len() == sh.globals.len() {
        sh.global_order.clone()
    } else {
        (0..sh.globals.len()).collect()
    };
    for gi in order {
        item!(true, |out: &mut String| writeln!(out, "{}", global_decl(&sh.globals[gi], sh)).unwrap());
    }
    for f in &sh.funcs {
        item!(false, |out: &mut String| {
        let mut ctx = Ctx { n: 0 };
        if f.ret {
            writeln!(out, "fn {}(x: f32) -> f32 {{", f.name).unwrap();
        } else {
            writeln!(out, "fn {}(x: f32) {{", f.name).unwrap();
        }
        writeln!(out, "    var acc: f32 = x;").unwrap();
        render_stmts(sh, &f.body, 1, &mut ctx, out, f.ret);
        if f.ret {
            writeln!(out, "    return acc;").unwrap();
        }
        writeln!(out, "}}").unwrap();
        });
    }
    for e in &sh.entries {
        item!(false, |out: &mut String| {
        let mut ctx = Ctx { n: 0 };
        let stage = match e.stage {
            Stage::Vertex => "@vertex".to_string(),
            Stage::Fragment => "@fragment".to_string(),
            Stage::Compute => {
                let dims: Vec<String> = e
                    .wg
                    .iter()
                    .map(|d| match d {
                        WgDim::Lit(v) => v.to_string(),
                        WgDim::Const(n, _) => n.clone(),
                        WgDim::Override(n) => n.clone(),
                    })
                    .collect();
                format!("@compute @workgroup_size({})", dims.join(", "))
            }
        };
        let params: Vec<String> = e
            .params
            .iter()
            .map(|p| match p {
                EParam::Struct { name, st } => format!("{}: {}", name, sh.structs[*st].name),
                EParam::Builtin { name, builtin, ty } => format!("@builtin({}) {}: {}", builtin, name, tyw(ty, sh)),
                EParam::Loc { name, loc, ty, flat } => format!(
                    "@location({}) {}{}: {}",
                    loc,
                    if *flat { "@interpolate(flat) " } else { "" },
                    name,
                    tyw(ty, sh)
                ),
            })
            .collect();
        let (ret_sig, ret_ty) = match &e.result {
            EResult::None => (String::new(), None),
            EResult::Builtin { builtin, ty } => {
                (format!(" -> @builtin({}) {}", builtin, ty.wgsl(&sh.structs)), Some(ty.wgsl(&sh.structs)))
            }
            EResult::Loc { loc, ty } => {
                (format!(" -> @location({}) {}", loc, ty.wgsl(&sh.structs)), Some(ty.wgsl(&sh.structs)))
            }
            EResult::Struct(i) => (format!(" -> {}", sh.structs[*i].name), Some(sh.structs[*i].name.clone())),
        };
        writeln!(out, "{stage}\nfn {}({}){} {{", e.name, params.join(", "), ret_sig).unwrap();
        writeln!(out, "    var acc: f32 = 1.0;").unwrap();
        render_stmts(sh, &e.body, 1, &mut ctx, out, false);
        if let Some(t) = ret_ty {
            writeln!(out, "    var out_value: {t};").unwrap();
            writeln!(out, "    return out_value;").unwrap();
        }
        writeln!(out, "}}").unwrap();
        });
    }
    if sh.item_shuffle != 0 && items.len() > 1 {
        // Fisher-Yates with a splitmix stream derived from the (proptest-provided) seed
        let globals_in_order: Vec<String> = items.iter().filter(|i| i.0).map(|i| i.1.clone()).collect();
        let mut state = sh.item_shuffle;
        for i in (1..items.len()).rev() {
            state = crate::chooser::mix(state, i as u64);
            let j = (state % (i as u64 + 1)) as usize;
            items.swap(i, j);
        }
        // module-scope variables keep their relative declaration order
        let mut g = globals_in_order.into_iter();
        for it in items.iter_mut() {
            if it.0 {
                it.1 = g.next().unwrap();
            }
        }
    }
    let mut out = String::new();
    out.push_str(&sh.prologue);
    for (_, s) in items {
        out.push_str(&s);
    }
    out.push_str(&sh.epilogue);
    out
}
