//! Developer aid: measure generator health and SUT outcomes for a profile.
use crate::chooser::Ch;
use crate::engine::*;
use crate::gen::*;
use crate::preflight;
use crate::render::render;
use crate::sut::*;
use std::collections::BTreeMap;

pub fn run(sut: &dyn Sut, args: &[String]) -> ! {
    preflight::quiet_panics();
    let n: usize = args.first().and_then(|s| s.parse().ok()).unwrap_or(500);
    let show: usize = args.get(1).and_then(|s| s.parse().ok()).unwrap_or(3);
    let (_r, sampled) = sample(env_seed(), n, (64, 400));
    let p = Profile::base();
    let mut invalid = 0;
    let mut errs: BTreeMap<String, (usize, String)> = BTreeMap::new();
    let mut outcomes: BTreeMap<String, (usize, String)> = BTreeMap::new();
    let mut shown = 0;
    let mut total_len = 0;
    for t in &sampled.trees {
        let c = t.current();
        let mut ch = Ch::new(&c);
        let sh = gen_shader(&mut ch, &p);
        let wgsl = render(&sh);
        total_len += wgsl.len();
        if shown < show {
            shown += 1;
            println!("----- sample ({} choices used of {})\n{}", ch.used(), c.len(), wgsl);
        }
        match preflight::preflight(&wgsl) {
            Ok(_) => {
                let o = sut.generate(&wgsl, None, &Opts { encase_host: true, ..Opts::default() });
                let key = match &o {
                    Outcome::Ok(_) => "ok".to_string(),
                    Outcome::Err(e) => format!("err {:?}", e.kind),
                    Outcome::Panic(m) => format!("panic {}", &m[..m.len().min(60)]),
                };
                let e = outcomes.entry(key).or_insert((0, wgsl.clone()));
                e.0 += 1;
            }
            Err(e) => {
                invalid += 1;
                let key: String = e.lines().take(2).collect::<Vec<_>>().join(" | ");
                let key = key.chars().take(110).collect::<String>();
                let ent = errs.entry(key).or_insert((0, format!("{e}\n{wgsl}")));
                ent.0 += 1;
            }
        }
    }
    println!("generated {n}, invalid {invalid}, mean length {}", total_len / n.max(1));
    for (k, (c, ex)) in &errs {
        println!("== {c} x {k}\n{ex}\n");
    }
    for (k, (c, ex)) in &outcomes {
        println!("outcome {c} x {k}");
        if k.starts_with("panic") || k.starts_with("err") {
            println!("{ex}");
        }
    }
    std::process::exit(0)
}
