//! Interface to the code under test. `vcore` does not link wgsl_to_wgpu (so that a change in /repo
//! only rebuilds the thin `vcheck` binary); the binary supplies an implementation of `Sut`.

use crate::layout::Repr;
use serde::Serialize;

#[derive(Clone, Copy, Debug, PartialEq, Eq, Hash, Serialize)]
pub enum Validate {
    Off,
    All,
    Default,
    Bits(u32),
}

#[derive(Clone, Copy, Debug, PartialEq, Eq, Hash, Serialize)]
pub struct Opts {
    pub bytemuck_vertex: bool,
    pub bytemuck_host: bool,
    pub encase_host: bool,
    pub serde: bool,
    pub repr: Repr,
    pub rustfmt: bool,
    pub validate: Validate,
}

impl Default for Opts {
    fn default() -> Self {
        Opts { bytemuck_vertex: false, bytemuck_host: false, encase_host: false, serde: false, repr: Repr::Rust, rustfmt: false, validate: Validate::Off }
    }
}

impl Opts {
    pub fn from_bits(bits: u32, repr: Repr) -> Opts {
        Opts {
            bytemuck_vertex: bits & 1 != 0,
            bytemuck_host: bits & 2 != 0,
            encase_host: bits & 4 != 0,
            serde: bits & 8 != 0,
            repr,
            rustfmt: false,
            validate: Validate::Off,
        }
    }
    pub fn short(&self) -> String {
        format!(
            "bv={} bh={} en={} se={} repr={:?} fmt={} val={:?}",
            self.bytemuck_vertex as u8, self.bytemuck_host as u8, self.encase_host as u8, self.serde as u8, self.repr, self.rustfmt as u8, self.validate
        )
    }
}

#[derive(Clone, Debug, PartialEq, Eq, Serialize)]
pub enum ErrKind {
    NonConsecutiveBindGroups,
    DuplicateBinding(u32),
    Parse,
    Validation,
    Other,
}

#[derive(Clone, Debug, PartialEq, Eq, Serialize)]
pub struct SutErr {
    pub kind: ErrKind,
    /// Display of the error
    pub display: String,
    /// for Parse / Validation: Display of the inner naga error
    pub inner: String,
    /// emit_to_string(source) (None if that call panicked)
    pub emit: Option<String>,
    /// emit_to_string_with_path(source, "some/path.wgsl")
    pub emit_path: Option<String>,
    /// whether emit_to_stderr / emit_to_stderr_with_path returned without panicking
    pub emit_stderr_ok: bool,
}

#[derive(Clone, Debug, PartialEq, Eq, Serialize)]
pub enum Outcome {
    Ok(String),
    Err(SutErr),
    Panic(String),
}

impl Outcome {
    pub fn ok(&self) -> Option<&str> {
        match self {
            Outcome::Ok(s) => Some(s),
            _ => None,
        }
    }
    pub fn brief(&self) -> String {
        match self {
            Outcome::Ok(s) => format!("Ok({} bytes)", s.len()),
            Outcome::Err(e) => format!("Err({:?}: {})", e.kind, e.display),
            Outcome::Panic(m) => format!("Panic({m})"),
        }
    }
}

pub trait Sut: Sync {
    /// `include_path = None` -> create_shader_module_embedded
    fn generate(&self, wgsl: &str, include_path: Option<&str>, opts: &Opts) -> Outcome;
}
