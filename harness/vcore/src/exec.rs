//! Shared driver for the "executed width": sample cases, run the generator, compile + execute the
//! probes in a batch, judge, confirm every candidate violation in isolation, shrink, report.

use crate::chooser::hash_str;
use crate::engine::*;
use crate::model::Shader;
use crate::outread::Out;
use crate::preflight;
use crate::probe::*;
use crate::sut::*;
use serde_json::{json, Value};

pub struct Built {
    pub sh: Shader,
    pub wgsl: String,
    pub include_path: Option<String>,
    pub opts: Opts,
    /// property-specific data
    pub extra: Value,
    pub files: Vec<(String, Vec<u8>)>,
}

pub enum Verdict {
    Ok,
    Skip(String),
    Violation(String),
}

pub trait ExecProp: Sync {
    fn id(&self) -> &'static str;
    fn kind(&self) -> Kind {
        Kind::Fake
    }
    /// Build a case from a choice sequence. None = excluded by construction (counted).
    fn build(&self, choices: &[u32], stats: &mut Stats) -> Option<Built>;
    /// Probe source written from the model (never from the generator's output).
    fn probe_src(&self, b: &Built) -> String;
    /// Top-level items of the generated module this property observes: a compile error inside one of
    /// them makes the statement false for that item. (kind, name) as reported by `outread`.
    fn observes_item(&self, kind: &str, name: &str) -> bool;
    fn judge(&self, b: &Built, module_text: &str, obs: &Value, stats: &mut Stats) -> Verdict;
    fn nontrivial(&self, b: &Built) -> bool;
    fn classes(&self, _b: &Built, _stats: &mut Stats) {}
    /// whether a generator panic is a violation for this property (default: no, counted)
    fn panic_is_violation(&self) -> bool {
        false
    }
    /// judge a SUT outcome that is not Ok (default: skip)
    fn judge_not_ok(&self, _b: &Built, o: &Outcome) -> Verdict {
        Verdict::Skip(format!("sut_{}", o.brief().chars().take(48).collect::<String>()))
    }
    /// called for compile errors; default policy described in DESIGN §1.1 step 5
    fn judge_compile_error(&self, _b: &Built, module_text: &str, diags: &[Diag]) -> Verdict {
        default_compile_verdict(self, module_text, diags)
    }
}

pub fn default_compile_verdict<P: ExecProp + ?Sized>(p: &P, module_text: &str, diags: &[Diag]) -> Verdict {
    let out: Option<Out> = crate::outread::read(module_text).ok();
    let mut elsewhere = 0;
    for d in diags {
        if d.file == "probe" {
            return Verdict::Violation(format!(
                "the probe written from the statement does not compile against the generated module (an item, field or type the statement requires is missing or different):\n{}",
                d.rendered
            ));
        }
        let item = out.as_ref().and_then(|o| o.item_at_line(d.line));
        match item {
            Some(it) if p.observes_item(it.kind, &it.name) => {
                return Verdict::Violation(format!("the generated {} `{}` does not compile:\n{}", it.kind, it.name, d.rendered));
            }
            _ => elsewhere += 1,
        }
    }
    if std::env::var("VERIF_DEBUG").is_ok() {
        if let Some(d) = diags.first() {
            eprintln!("uncompilable_elsewhere: {}", d.rendered);
        }
    }
    let _ = elsewhere;
    Verdict::Skip("uncompilable_elsewhere".to_string())
}

struct Prepared {
    built: Built,
    module_text: String,
    probe: ProbeCase,
}

fn prepare<P: ExecProp + ?Sized>(p: &P, sut: &dyn Sut, choices: &[u32], stats: &mut Stats) -> Result<Option<Prepared>, (Built, String)> {
    let Some(b) = p.build(choices, stats) else {
        stats.excluded_known += 1;
        return Ok(None);
    };
    prepare_built(p, sut, b, stats)
}

fn prepare_built<P: ExecProp + ?Sized>(p: &P, sut: &dyn Sut, b: Built, stats: &mut Stats) -> Result<Option<Prepared>, (Built, String)> {
    if let Err(e) = preflight::preflight(&b.wgsl) {
        stats.generator_invalid += 1;
        if stats.generator_invalid <= 3 {
            eprintln!("generator-invalid ({}): {}\n{}", p.id(), e, b.wgsl);
        }
        return Ok(None);
    }
    let o = sut.generate(&b.wgsl, b.include_path.as_deref(), &b.opts);
    let text = match &o {
        Outcome::Ok(t) => t.clone(),
        Outcome::Panic(m) => {
            stats.sut_panic += 1;
            stats.class(&format!("sut_panic:{}", m.chars().take(50).collect::<String>()));
            if p.panic_is_violation() {
                return Err((b, format!("the generator panicked: {m}")));
            }
            return match p.judge_not_ok(&b, &o) {
                Verdict::Violation(m) => Err((b, m)),
                _ => Ok(None),
            };
        }
        Outcome::Err(_) => {
            return match p.judge_not_ok(&b, &o) {
                Verdict::Violation(m) => Err((b, m)),
                Verdict::Skip(s) => {
                    stats.skip(&s);
                    Ok(None)
                }
                Verdict::Ok => Ok(None),
            };
        }
    };
    let probe = ProbeCase { module_src: text.clone(), probe_src: p.probe_src(&b), files: b.files.clone() };
    Ok(Some(Prepared { built: b, module_text: text, probe }))
}

fn judge_result<P: ExecProp + ?Sized>(p: &P, pr: &Prepared, r: &CaseResult, stats: &mut Stats) -> Verdict {
    match r {
        CaseResult::Ok(Some(obs)) => p.judge(&pr.built, &pr.module_text, obs, stats),
        CaseResult::Ok(None) => p.judge(&pr.built, &pr.module_text, &Value::Null, stats),
        CaseResult::CompileError(d) => p.judge_compile_error(&pr.built, &pr.module_text, d),
        CaseResult::RunPanic(m) => Verdict::Violation(format!("executing the generated code panicked: {m}")),
        CaseResult::Unknown(m) => Verdict::Skip(format!("probe_infrastructure:{}", m.chars().take(60).collect::<String>())),
    }
}

/// Evaluate a single case in the isolated workspace. Returns Some(message) if it violates.
pub fn eval_single<P: ExecProp + ?Sized>(p: &P, sut: &dyn Sut, choices: &[u32]) -> Option<String> {
    let mut st = Stats::new();
    let Some(b) = p.build(choices, &mut st) else { return None };
    eval_built(p, sut, b)
}

pub fn eval_built<P: ExecProp + ?Sized>(p: &P, sut: &dyn Sut, b: Built) -> Option<String> {
    let mut st = Stats::new();
    match prepare_built(p, sut, b, &mut st) {
        Err((_, m)) => Some(m),
        Ok(None) => None,
        Ok(Some(pr)) => {
            let ws = Workspace::new(&format!("{}iso", p.id()), p.kind(), 1);
            let r = ws.run(std::slice::from_ref(&pr.probe));
            match judge_result(p, &pr, &r[0], &mut st) {
                Verdict::Violation(m) => Some(m),
                _ => None,
            }
        }
    }
}

pub fn case_json(b: &Built, choices: &[u32], module_text: Option<&str>) -> Value {
    json!({
        "kind": "exec",
        "choices": choices,
        "wgsl": b.wgsl,
        "model": serde_json::to_value(&b.sh).unwrap_or(Value::Null),
        "files": b.files.iter().map(|(n, d)| json!([n, d])).collect::<Vec<_>>(),
        "include_path": b.include_path,
        "options": crate::worker::opts_to_json(&b.opts),
        "extra": b.extra,
        "generated": module_text,
    })
}

/// Evaluate fixed (enumerated) choice vectors: no shrinking. Returns true if a violation was reported.
pub fn run_fixed<P: ExecProp + ?Sized>(p: &P, sut: &dyn Sut, run: &mut Run, stats: &mut Stats, cases: &[Vec<u32>]) -> bool {
    let trees: Vec<Box<dyn proptest::strategy::ValueTree<Value = Vec<u32>>>> =
        cases.iter().map(|c| Box::new(FixedTree(c.clone())) as Box<dyn proptest::strategy::ValueTree<Value = Vec<u32>>>).collect();
    run_trees(p, sut, run, stats, Sampled { trees })
}

struct FixedTree(Vec<u32>);
impl proptest::strategy::ValueTree for FixedTree {
    type Value = Vec<u32>;
    fn current(&self) -> Vec<u32> {
        self.0.clone()
    }
    fn simplify(&mut self) -> bool {
        false
    }
    fn complicate(&mut self) -> bool {
        false
    }
}

/// One round: `n` cases. Returns true if a violation was reported.
pub fn run_round<P: ExecProp + ?Sized>(p: &P, sut: &dyn Sut, run: &mut Run, stats: &mut Stats, stream: u64, n: usize, len: (usize, usize)) -> bool {
    let (_r, sampled) = sample(run.seed_for(stream), n, len);
    run_trees(p, sut, run, stats, sampled)
}

fn run_trees<P: ExecProp + ?Sized>(p: &P, sut: &dyn Sut, run: &mut Run, stats: &mut Stats, mut sampled: Sampled) -> bool {
    let mut prepared: Vec<Option<Prepared>> = Vec::new();
    let mut direct_violation: Option<(usize, String)> = None;
    for (i, t) in sampled.trees.iter().enumerate() {
        let c = t.current();
        match prepare(p, sut, &c, stats) {
            Ok(x) => prepared.push(x),
            Err((_b, m)) => {
                prepared.push(None);
                if direct_violation.is_none() {
                    direct_violation = Some((i, m));
                }
            }
        }
    }
    let idx: Vec<usize> = (0..prepared.len()).filter(|i| prepared[*i].is_some()).collect();
    let probes: Vec<ProbeCase> = idx.iter().map(|i| prepared[*i].as_ref().unwrap().probe.clone()).collect();
    let ws = Workspace::new(p.id(), p.kind(), SHARDS);
    let results = if probes.is_empty() { vec![] } else { ws.run(&probes) };
    let mut candidates: Vec<(usize, String)> = Vec::new();
    if let Some(d) = direct_violation {
        candidates.push(d);
    }
    for (k, i) in idx.iter().enumerate() {
        let pr = prepared[*i].as_ref().unwrap();
        stats.evaluations += 1;
        p.classes(&pr.built, stats);
        if p.nontrivial(&pr.built) {
            stats.nontrivial_case(hash_str(&format!("{}|{}|{:?}", pr.built.wgsl, pr.built.opts.short(), pr.built.include_path)));
        }
        match judge_result(p, pr, &results[k], stats) {
            Verdict::Ok => {
                stats.sample(|| json!({"wgsl": pr.built.wgsl, "options": pr.built.opts.short(), "extra": pr.built.extra}));
            }
            Verdict::Skip(s) => stats.skip(&s),
            Verdict::Violation(m) => candidates.push((*i, m)),
        }
    }
    if std::env::var("VERIF_KEEP_WS").is_err() {
        // keep disk use bounded: sources are small, the target dir is shared
    }
    // confirm in isolation, shrink, report (first confirmed candidate only; the others are very
    // likely the same root cause and would cost minutes of compile time each)
    candidates.sort_by_key(|c| c.0);
    let mut unconfirmed = 0;
    for (i, m) in candidates.into_iter().take(6) {
        let choices = sampled.trees[i].current();
        let confirmed = eval_single(p, sut, &choices);
        // a module that the fake rejects but the real wgpu 24 accepts is a gap in the recording fake,
        // not a defect of the generator: infrastructure error, never a violation
        if let Some(mi) = &confirmed {
            if p.kind() == Kind::Fake && mi.starts_with("the generated ") && mi.contains("does not compile") {
                let mut st = Stats::new();
                if let Some(b) = p.build(&choices, &mut st) {
                    if let Outcome::Ok(text) = sut.generate(&b.wgsl, b.include_path.as_deref(), &b.opts) {
                        let ws = Workspace::new(&format!("{}shim", p.id()), Kind::Real, 1);
                        let r = ws.run(&[ProbeCase { module_src: text, probe_src: String::new(), files: b.files.clone() }]);
                        if matches!(r[0], CaseResult::Ok(_)) {
                            eprintln!("SHIM-GAP property={}: the generated module compiles against the real wgpu 24.0.5 but not against /verif/shim/wgpu:\n{}", p.id(), mi);
                            std::process::exit(2);
                        }
                    }
                }
            }
        }
        let Some(m_iso) = confirmed else {
            unconfirmed += 1;
            eprintln!("candidate violation not confirmed in isolation (dropped): {}", m.lines().next().unwrap_or(""));
            continue;
        };
        let max_steps = if std::env::var("VERIF_NO_SHRINK").is_ok() { 0 } else { 60 };
        let best = shrink_tree(&mut *sampled.trees[i], max_steps, &mut |c| eval_single(p, sut, c).is_some());
        let best = if max_steps > 0 { zero_chunks(&best, 24, &mut |c| eval_single(p, sut, c).is_some()) } else { best };
        let msg = eval_single(p, sut, &best).unwrap_or(m_iso);
        let mut st = Stats::new();
        let body = match p.build(&best, &mut st) {
            Some(b) => {
                let text = match sut.generate(&b.wgsl, b.include_path.as_deref(), &b.opts) {
                    Outcome::Ok(t) => Some(t),
                    _ => None,
                };
                case_json(&b, &best, text.as_deref())
            }
            None => json!({"kind": "exec", "choices": best}),
        };
        run.violation(body, &msg);
        stats.extra.insert("unconfirmed_candidates".into(), json!(unconfirmed));
        return true;
    }
    stats.extra.insert("unconfirmed_candidates".into(), json!(unconfirmed));
    false
}

/// Replay for exec properties: the case is rebuilt from its choice sequence.
pub fn eval_replay_exec<P: ExecProp + ?Sized>(p: &P, sut: &dyn Sut, v: &Value) -> Result<(), String> {
    let r = if !v["model"].is_null() {
        // self-contained replay: model + source + options (independent of the generator's version)
        let sh: Shader = serde_json::from_value(v["model"].clone()).map_err(|e| format!("replay file: bad model: {e}"))?;
        let files = v["files"]
            .as_array()
            .map(|a| a.iter().filter_map(|f| Some((f[0].as_str()?.to_string(), f[1].as_array()?.iter().map(|x| x.as_u64().unwrap_or(0) as u8).collect()))).collect())
            .unwrap_or_default();
        let b = Built {
            sh,
            wgsl: v["wgsl"].as_str().unwrap_or("").to_string(),
            include_path: v["include_path"].as_str().map(|s| s.to_string()),
            opts: crate::worker::opts_from_json(&v["options"]),
            extra: v["extra"].clone(),
            files,
        };
        eval_built(p, sut, b)
    } else {
        eval_single(p, sut, &choices_from_json(v))
    };
    match r {
        Some(m) => Err(m),
        None => Ok(()),
    }
}
