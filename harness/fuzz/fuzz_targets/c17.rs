#![no_main]
//! libFuzzer target for C17: byte 0 selects the validation capability set, the rest is the WGSL
//! text. The semantic oracle (differential against naga called directly) is inside the target:
//! a disagreement prints the message and aborts, so libFuzzer saves the input as an artifact.
//! Panics of the generator on valid-but-unsupported shaders are *allowed* outcomes (caught inside
//! the Sut adapter); libFuzzer's aborting panic hook is therefore replaced on every iteration.

use libfuzzer_sys::fuzz_target;
use vcore::engine::Stats;
use vcore::props::c17::{judge, Case};
use vcore::sut::Validate;

type Chan = (std::sync::Mutex<std::sync::mpsc::Sender<Case>>, std::sync::Mutex<std::sync::mpsc::Receiver<Result<(), String>>>);
static WORKER: std::sync::OnceLock<Chan> = std::sync::OnceLock::new();

pub fn decode(data: &[u8]) -> Option<Case> {
    if data.is_empty() {
        return None;
    }
    let text = std::str::from_utf8(&data[1..]).ok()?;
    let validate = match data[0] % 4 {
        0 => Validate::All,
        1 => Validate::Default,
        2 => Validate::Bits(u32::from_le_bytes([data[0], data.get(1).copied().unwrap_or(0), data.get(2).copied().unwrap_or(0), data.get(3).copied().unwrap_or(0)])),
        _ => Validate::Bits(0),
    };
    Some(Case { text: text.to_string(), validate, label: "fuzz" })
}

fuzz_target!(|data: &[u8]| {
    std::panic::set_hook(Box::new(|_| {}));
    let Some(case) = decode(data) else { return };
    // naga's recursive descent needs stack for deeply nested inputs: judge on one long-lived
    // 1 GiB-stack thread (no state is shared between iterations: the judge is a pure function)
    let (tx, rx) = WORKER.get_or_init(|| {
        let (tx, wrx) = std::sync::mpsc::channel::<Case>();
        let (wtx, rx) = std::sync::mpsc::channel::<Result<(), String>>();
        std::thread::Builder::new()
            .stack_size(1 << 30)
            .spawn(move || {
                for c in wrx {
                    let r = std::panic::catch_unwind(std::panic::AssertUnwindSafe(|| judge(&vsut::Real, &c, &mut Stats::new()))).unwrap_or(Ok(()));
                    if wtx.send(r).is_err() {
                        break;
                    }
                }
            })
            .unwrap();
        (std::sync::Mutex::new(tx), std::sync::Mutex::new(rx))
    });
    tx.lock().unwrap().send(case).unwrap();
    if let Ok(Err(m)) = rx.lock().unwrap().recv() {
        eprintln!("C17-FUZZ-VIOLATION: {}", m.lines().next().unwrap_or(""));
        std::process::abort();
    }
});
