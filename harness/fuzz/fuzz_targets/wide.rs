#![no_main]
//! libFuzzer target over the *choice sequence* of the structured generator: the bytes decode to the
//! choices the deterministic builder consumes, so coverage feedback from the code under test steers
//! the search towards shader shapes that reach new generator code. The property (and with it the
//! profile, builder and oracle) is selected by VERIF_FUZZ_PROP; the oracle runs inside the target.

use libfuzzer_sys::fuzz_target;
use vcore::engine::{choices_from_bytes, wide_judge, Stats};

static JUDGE: std::sync::OnceLock<(String, fn(&dyn vcore::sut::Sut, &[u32], &mut Stats) -> Result<(), String>)> = std::sync::OnceLock::new();

fuzz_target!(|data: &[u8]| {
    // panics of the generator are caught inside the Sut adapter: libFuzzer's aborting hook must go
    std::panic::set_hook(Box::new(|_| {}));
    let (prop, judge) = JUDGE.get_or_init(|| {
        let p = std::env::var("VERIF_FUZZ_PROP").unwrap_or_else(|_| "C03".into());
        let j = wide_judge(&p).expect("VERIF_FUZZ_PROP names a property with an in-process judge");
        (p, j)
    });
    if data.len() < 8 {
        return;
    }
    let choices = choices_from_bytes(data);
    let r = std::panic::catch_unwind(std::panic::AssertUnwindSafe(|| judge(&vsut::Real, &choices, &mut Stats::new())));
    match r {
        Ok(Ok(())) => {}
        Ok(Err(m)) => {
            eprintln!("WIDE-FUZZ-VIOLATION property={prop}: {}", m.lines().next().unwrap_or(""));
            std::process::abort();
        }
        Err(_) => {
            eprintln!("WIDE-FUZZ-HARNESS-PANIC property={prop}");
            std::process::abort();
        }
    }
});
