//! The code under test behind the `Sut` trait (shared by the `vcheck` binary and the fuzz target).

use std::panic::{catch_unwind, AssertUnwindSafe};
use vcore::layout::Repr;
use vcore::sut::*;
use wgsl_to_wgpu::{CreateModuleError, MatrixVectorTypes, ValidationOptions, WgslCapabilities, WriteOptions};

pub struct Real;

pub fn panic_msg(e: Box<dyn std::any::Any + Send>) -> String {
    if let Some(s) = e.downcast_ref::<&str>() {
        s.to_string()
    } else if let Some(s) = e.downcast_ref::<String>() {
        s.clone()
    } else {
        "<non-string panic>".to_string()
    }
}

pub fn to_write_options(o: &Opts) -> WriteOptions {
    WriteOptions {
        derive_bytemuck_vertex: o.bytemuck_vertex,
        derive_bytemuck_host_shareable: o.bytemuck_host,
        derive_encase_host_shareable: o.encase_host,
        derive_serde: o.serde,
        matrix_vector_types: match o.repr {
            Repr::Rust => MatrixVectorTypes::Rust,
            Repr::Glam => MatrixVectorTypes::Glam,
            Repr::Nalgebra => MatrixVectorTypes::Nalgebra,
        },
        rustfmt: o.rustfmt,
        validate: match o.validate {
            Validate::Off => None,
            Validate::All => Some(ValidationOptions { capabilities: WgslCapabilities::all() }),
            Validate::Default => Some(ValidationOptions { capabilities: WgslCapabilities::default() }),
            Validate::Bits(b) => Some(ValidationOptions { capabilities: WgslCapabilities::from_bits_truncate(b) }),
        },
    }
}

impl Sut for Real {
    fn generate(&self, wgsl: &str, include_path: Option<&str>, opts: &Opts) -> Outcome {
        // see outread::reset_span_map: the harness's proc-macro2 features make the generator's own
        // syn::parse_file accumulate sources per thread
        vcore::outread::reset_span_map();
        let wo = to_write_options(opts);
        let r = catch_unwind(AssertUnwindSafe(|| match include_path {
            Some(p) => wgsl_to_wgpu::create_shader_module(wgsl, p, wo),
            None => wgsl_to_wgpu::create_shader_module_embedded(wgsl, wo),
        }));
        match r {
            Ok(Ok(s)) => Outcome::Ok(s),
            Ok(Err(e)) => {
                let (kind, inner) = match &e {
                    CreateModuleError::NonConsecutiveBindGroups => (ErrKind::NonConsecutiveBindGroups, String::new()),
                    CreateModuleError::DuplicateBinding { binding } => (ErrKind::DuplicateBinding(*binding), String::new()),
                    CreateModuleError::ParseError { error } => (ErrKind::Parse, error.to_string()),
                    CreateModuleError::ValidationError { error } => (ErrKind::Validation, error.to_string()),
                    _ => (ErrKind::Other, String::new()),
                };
                let display = e.to_string();
                let emit = catch_unwind(AssertUnwindSafe(|| e.emit_to_string(wgsl))).ok();
                let emit_path = catch_unwind(AssertUnwindSafe(|| e.emit_to_string_with_path(wgsl, "some dir/shader ß.wgsl"))).ok();
                // stderr variants: silence fd 2 while calling them
                let emit_stderr_ok = with_stderr_null(|| {
                    catch_unwind(AssertUnwindSafe(|| {
                        e.emit_to_stderr(wgsl);
                        e.emit_to_stderr_with_path(wgsl, "some dir/shader ß.wgsl");
                    }))
                    .is_ok()
                });
                Outcome::Err(SutErr { kind, display, inner, emit, emit_path, emit_stderr_ok })
            }
            Err(p) => Outcome::Panic(panic_msg(p)),
        }
    }
}

pub fn with_stderr_null<T>(f: impl FnOnce() -> T) -> T {
    unsafe {
        let saved = libc::dup(2);
        let devnull = libc::open(b"/dev/null\0".as_ptr() as *const libc::c_char, libc::O_WRONLY);
        if devnull >= 0 {
            libc::dup2(devnull, 2);
        }
        let r = f();
        if saved >= 0 {
            libc::dup2(saved, 2);
            libc::close(saved);
        }
        if devnull >= 0 {
            libc::close(devnull);
        }
        r
    }
}

