//! Thin binary: links the code under test (path dependency on /repo/wgsl_to_wgpu, through `vsut`) and
//! hands it to the judges in `vcore` behind the `Sut` trait.

use vcore::engine::Tier;
use vcore::sut::*;
use vsut::Real;

fn usage() -> ! {
    eprintln!("usage: vcheck <PROPERTY> <quick|thorough> | vcheck <PROPERTY> --replay <file> | vcheck worker ...");
    std::process::exit(2)
}

fn main() {
    let args: Vec<String> = std::env::args().skip(1).collect();
    if args.is_empty() {
        usage();
    }
    let sut = Real;
    if args[0] == "worker" {
        vcore::worker::worker_main(&sut, &args[1..]);
    }
    if args[0] == "warm" {
        vcore::probe::warm(vcore::probe::Kind::Fake);
        vcore::probe::warm(vcore::probe::Kind::Real);
        println!("probe workspaces warm");
        return;
    }
    if args[0] == "gen" {
        // developer aid: vcheck gen <file.wgsl> [opts-json] -> prints the outcome
        vcore::preflight::quiet_panics();
        let src = std::fs::read_to_string(&args[1]).expect("read wgsl");
        let opts = args.get(2).map(|j| vcore::worker::opts_from_json(&serde_json::from_str(j).expect("opts json"))).unwrap_or_default();
        match sut.generate(&src, None, &opts) {
            Outcome::Ok(t) => println!("{t}"),
            other => println!("{}", other.brief()),
        }
        return;
    }
    if args[0] == "fuzzjudge" {
        // developer aid: vcheck fuzzjudge <PROPERTY> <libFuzzer artifact of target `wide`> [repeat]
        vcore::preflight::quiet_panics();
        let judge = vcore::engine::wide_judge(&args[1].to_uppercase()).expect("property with an in-process judge");
        let data = std::fs::read(&args[2]).expect("read artifact");
        let choices = vcore::engine::choices_from_bytes(&data);
        let n: usize = args.get(3).and_then(|s| s.parse().ok()).unwrap_or(1);
        for i in 0..n {
            match judge(&sut, &choices, &mut vcore::engine::Stats::new()) {
                Ok(()) => println!("run {i}: ok"),
                Err(m) => println!("run {i}: VIOLATION {}", m.chars().take(600).collect::<String>()),
            }
        }
        return;
    }
    if args[0] == "selftest" {
        vcore::selftest::run(&sut, &args[1..]);
    }
    let prop = args[0].to_uppercase();
    if args.len() >= 3 && args[1] == "--replay" {
        vcore::props::replay(&sut, &prop, &args[2]);
    }
    let tier_s = args.get(1).cloned().or(std::env::var("VERIF_TIER").ok()).unwrap_or_default();
    let tier = match tier_s.as_str() {
        "quick" => Tier::Quick,
        "thorough" => Tier::Thorough,
        _ => usage(),
    };
    // a panic that escapes the judges is a defect of the harness (or of an external tool it drives):
    // infrastructure error with its location, never a silent exit code and never a violation
    let r = std::panic::catch_unwind(std::panic::AssertUnwindSafe(|| vcore::props::run(&sut, &prop, tier)));
    if let Err(e) = r {
        let m = e.downcast_ref::<&str>().map(|s| s.to_string()).or(e.downcast_ref::<String>().cloned()).unwrap_or_default();
        let loc = vcore::preflight::LAST_PANIC_LOCATION.lock().map(|g| g.clone()).unwrap_or_default();
        eprintln!("HARNESS-PANIC: the check for {prop} panicked ({m}) at {loc}");
        std::process::exit(2);
    }
}
