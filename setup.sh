#!/bin/sh
# Build everything the checks need from files on disk only (offline).
set -eu
export CARGO_NET_OFFLINE=true
mkdir -p /verif/work /verif/evidence
cd /verif/harness
cargo build --release -q
if [ -x /verif/tools/setup_probes.sh ]; then /verif/tools/setup_probes.sh; fi
echo setup-ok
