#!/bin/bash
# usage: tools/retest_seed.sh <seed-name> <PROPERTY> [tier]  -- re-run a check against a stored seeded change
set -u
name=$1; prop=$2; tier=${3:-quick}
dest=/verif/seeded/$name
cd /verif
[ -z "$(git -C /repo status --short)" ] || { echo "/repo not clean"; exit 2; }
git -C /repo apply $dest/patch.diff || { echo "patch does not apply"; exit 2; }
start=$(date +%s)
./check $prop $tier > $dest/recheck_$prop.log 2>&1; rc=$?
end=$(date +%s)
git -C /repo checkout -- .
grep -E "^VIOLATION|^  |^$prop " $dest/recheck_$prop.log | head -5 | cut -c1-400
echo "exit=$rc seconds=$((end-start))"
for f in /verif/replays/$prop/found-*.json; do [ -f "$f" ] && mv $f $dest/ ; done
echo "{\"check\": \"./check $prop $tier\", \"check_exit\": $rc, \"check_seconds\": $((end-start))}" > $dest/rerun.json
