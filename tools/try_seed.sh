#!/bin/bash
# usage: tools/try_seed.sh <seed-name> <worktree> <outdir> <PROPERTY> [tier]
# Confirms a seeded change (suite passes, demo fails with / passes without), then runs the property's
# check against it on /repo and restores /repo. Results go to /verif/seeded/<seed-name>/.
set -u
name=$1; wt=$2; out=$3; prop=$4; tier=${5:-quick}
dest=/verif/seeded/$name
mkdir -p $dest
cd $wt || exit 2
git diff -- wgsl_to_wgpu/src > /tmp/try_seed_patch.diff
if [ ! -s /tmp/try_seed_patch.diff ]; then echo "no source change in $wt"; exit 2; fi
cmp -s /tmp/try_seed_patch.diff $out/patch.diff || echo "note: patch.diff differs from worktree diff; using the worktree diff"
demo=$(ls wgsl_to_wgpu/tests/seeded_demo*.rs 2>/dev/null | head -1)
[ -z "$demo" ] && { echo "no demo in worktree"; exit 2; }
dname=$(basename $demo .rs)
echo "== with change: existing suite"
cargo test --offline -p wgsl_to_wgpu --lib 2>&1 | grep -E "^test result" 
for t in $(ls wgsl_to_wgpu/tests/*.rs | xargs -n1 basename | sed 's/\.rs$//' | grep -v "^$dname$"); do cargo test --offline -p wgsl_to_wgpu --test $t 2>&1 | grep -E "^test result"; done
echo "== with change: demo (must fail)"
cargo test --offline -p wgsl_to_wgpu --test $dname 2>&1 | grep -E "^test result|panicked" | head -5
with=$(cargo test --offline -p wgsl_to_wgpu --test $dname 2>&1 | grep -c "test result: FAILED")
git apply -R /tmp/try_seed_patch.diff
echo "== without change: demo (must pass)"
cargo test --offline -p wgsl_to_wgpu --test $dname 2>&1 | grep -E "^test result" | head -3
without=$(cargo test --offline -p wgsl_to_wgpu --test $dname 2>&1 | grep -c "test result: ok")
git apply /tmp/try_seed_patch.diff
echo "demo_fails_with=$with demo_passes_without=$without"
cp /tmp/try_seed_patch.diff $dest/patch.diff
cp $demo $dest/$(basename $demo)
[ -f $out/notes.md ] && cp $out/notes.md $dest/notes.md
cd /verif
git -C /repo apply $dest/patch.diff || { echo "patch does not apply to /repo"; exit 2; }
echo "== check $prop $tier against the change"
start=$(date +%s)
./check $prop $tier > $dest/check_$prop.log 2>&1; rc=$?
end=$(date +%s)
git -C /repo checkout -- .
grep -E "^VIOLATION|^  |^$prop " $dest/check_$prop.log | head -6 | cut -c1-300
echo "exit=$rc seconds=$((end-start))"
for f in /verif/replays/$prop/found-*.json; do [ -f "$f" ] && mv $f $dest/ ; done
echo "{\"demo_fails_with_change\": $with, \"demo_passes_without_change\": $without, \"check\": \"./check $prop $tier\", \"check_exit\": $rc, \"check_seconds\": $((end-start))}" > $dest/run.json
