#!/bin/sh
# compile the dependency graphs of the probe workspaces once (real wgpu 24.0.5 for type-checking,
# the recording fake for execution)
set -eu
/verif/work/target-harness/release/vcheck warm
