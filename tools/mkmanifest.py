#!/usr/bin/env python3
"""Regenerates /verif/MANIFEST.json from the table below (single source of truth for what is claimed)."""
import json, sys
props = [json.loads(l) for l in open('/verif/properties.jsonl')]
ids = [p['id'] for p in props]

# id -> dict(category, technique, text, note, design_ref)
CLAIMED = {
 'C11': dict(category='exploration', design_ref='DESIGN.md §5 C11',
   technique='bounded-exhaustive enumeration + proptest random sequences against a reference predicate; output read with syn',
   text='Every declaration sequence of up to 3 (quick) / 4 (thorough) (group,binding) pairs over 4 groups x 3 bindings is enumerated, with validation off and on, plus thousands of random sequences with indices up to u32::MAX; each result is compared with a reference predicate on the sequence (duplicate -> DuplicateBinding naming a repeated index, else gap -> NonConsecutiveBindGroups, else Ok with every declared slot present exactly once in its own group). Exhaustive within the bound, sampled beyond it.',
   note='naga 24.0.0 called directly by the harness is the reference for "the validator rejects"; Ok outputs are read with syn (layout entries, bind entries, resource struct fields, set index, pipeline layout order).'),
}
PENDING = 'check not built yet in this round (see DESIGN.md §10 build order)'

checks = []
for i in ids:
    if i in CLAIMED:
        c = CLAIMED[i]
        checks.append({
            'property_id': i,
            'quick_cmd': f'./check {i} quick',
            'thorough_cmd': f'./check {i} thorough',
            'evidence_file': f'/verif/evidence/{i}.json',
            'replay_cmd_template': f'./check {i} --replay {{path}}',
            'engine': 'vcheck',
            'level_claimed': {'category': c['category'], 'text': c['text'], 'design_ref': c['design_ref']},
            'level_note': c['note'],
            'technique': c['technique'],
        })
manifest = {
    'version': 1,
    'setup_cmd': './setup.sh',
    'hooks': {
        'guard': '--cfg wgsl_to_wgpu_verif',
        'enable': 'no instrumentation hooks are needed: every observation is taken from the public API return value or by compiling/executing it; checks build /repo/wgsl_to_wgpu as a path dependency of /verif/harness/vcheck',
        'baseline_off_cmd': 'cd /repo && cargo test --workspace --no-fail-fast --offline',
        'source_commits': [],
        'add_only': True,
    },
    'engines': [
        {'name': 'vcheck', 'path': '/verif/harness', 'serves_properties': sorted(CLAIMED), 'kind_free_text': 'Rust harness: proptest-driven structured WGSL generator with reference semantics, naga/wgpu-core differential oracles, compile-and-execute probes against real and recording-fake wgpu, worker children for fault/CPU isolation; cargo-fuzz target for C17'},
    ],
    'checks': checks,
    'not_applicable': [{'property_id': i, 'reason': PENDING} for i in ids if i not in CLAIMED],
    'notes': 'Family: property-based testing and fuzzing. See DESIGN.md. Exit codes: 0 held, 1 violation, 2 inconclusive/infrastructure.',
}
json.dump(manifest, open('/verif/MANIFEST.json', 'w'), indent=1)
print('claimed', sorted(CLAIMED), 'pending', len(manifest['not_applicable']))
