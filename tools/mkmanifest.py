#!/usr/bin/env python3
"""Regenerates /verif/MANIFEST.json from the table below (single source of truth for what is claimed)."""
import json, sys
props = [json.loads(l) for l in open('/verif/properties.jsonl')]
ids = [p['id'] for p in props]

# id -> dict(category, technique, text, note, design_ref)
CLAIMED = {
 'C11': dict(category='exploration', design_ref='DESIGN.md §5 C11',
   technique='bounded-exhaustive enumeration + proptest random sequences against a reference predicate; output read with syn',
   text='Every declaration sequence of up to 3 (quick) / 4 (thorough) (group,binding) pairs over 4 groups x 3 bindings is enumerated, with validation off and on, plus thousands of random sequences with indices up to u32::MAX; each result is compared with a reference predicate on the sequence (duplicate -> DuplicateBinding naming a repeated index, else gap -> NonConsecutiveBindGroups, else Ok with every declared slot present exactly once in its own group). Exhaustive within the bound, sampled beyond it.',
   note='naga 24.0.0 called directly by the harness is the reference for "the validator rejects"; Ok outputs are read with syn (layout entries, bind entries, resource struct fields, set index, pipeline layout order).'),
 'C17': dict(category='exploration', design_ref='DESIGN.md §5 C17',
   technique='proptest text/token/semantic corruption of valid shaders, differential against naga called directly (parser, validator, diagnostics)',
   text='Thousands of corrupted shaders per run (byte/token level corruptions and appended parsable-but-invalid snippets of generated shaders and repository fixtures) are given to the generator with validation off and with a generated capability set; naga called directly on the same text decides what must happen: reference parse error => ParseError with the same message and the same rendered diagnostics (all four emit_* helpers, none panicking); reference validation error => ValidationError likewise; reference accepts => identical outcome with and without validation (same text byte for byte, same error, or a panic in both).',
   note='naga 24.0.0 as linked into the harness is the reference; texts on which naga itself panics are skipped and counted. Stack overflow inside naga on deeply nested input is outside the proptest tier (covered by the libFuzzer tier when built).'),
 'C18': dict(category='exploration', design_ref='DESIGN.md §5 C18',
   technique='proptest-generated call histories (incl. failing, panicking and concurrent calls) executed in worker processes, compared with fresh-process references under randomised environments',
   text='Each generated history (sequence of generator calls on 1-4 keys, interleaved with failing and panicking calls and with concurrent blocks of 2-5 threads) runs in one worker process; every result is compared byte for byte with the reference of its key, which comes from two fresh processes with different randomised environments (cwd, HOME, TMPDIR, LANG, RUST_*, env size; std hash seeds differ per process and per set) that must agree with each other.',
   note='Thread schedules are not controlled: concurrency is stress-level evidence only. rustfmt is off in this check (formatter behaviour is C19).'),
 'C19': dict(category='fault_enumeration', design_ref='DESIGN.md §5 C19',
   technique='fault injection: stub rustfmt on the PATH of a worker child (12 fault modes x output size classes x repeated timing samples); token-level metamorphic comparison with rustfmt off',
   text='The generator runs in a child process whose PATH resolves rustfmt to a stub that is absent, passes through to the real formatter, is slow, exits non-zero after / before / part-way through reading, kills itself before / after reading, prints nothing with exit 0, or closes stdin early; shaders are generated in two size classes so the unformatted code is below and far above the 64 KiB pipe buffer, and each fault is repeated to sample the exit-versus-write race. The child must return Ok with text token-identical to the rustfmt:false output; a panic, a dead process, a hang (60 s watchdog with < 1 s CPU used) or truncated/empty text is a violation.',
   note='Token identity uses proc-macro2 tokens with two normalisations (trailing comma before a closing delimiter; semicolon directly after a closing brace). Timing races are sampled, not enumerated.'),
 'C20': dict(category='exploration', design_ref='DESIGN.md §5 C20',
   technique='scaling families + proptest random call DAGs, CPU time of a worker child against a fixed threshold with >50x slack',
   text='Deterministic members of the call-graph families (chains with 1-3 call sites per level and mixed value/void calls up to depth 64, diamonds up to 40 layers, fan-out to a shared chain), nested struct type graphs up to depth 26, wide flat shaders (hundreds of bindings/members/constants) and random helper DAGs of up to 300 functions are each generated in a worker child; the child\'s own CPU time must stay below 2 s (shallow shaders of the same size cost < 0.06 s measured; the defect class it targets doubles per level).',
   note='CPU seconds (getrusage in the child, RLIMIT_CPU kill at 12 s), never wall clock. A crashed worker (stack overflow) is counted as skipped, not as a violation.'),
 'C02': dict(category='exploration', design_ref='DESIGN.md §5 C02',
   technique='structured shader generation + complete storage-texture table; generated module compiled and executed on a recording fake device; recorded layouts judged by unmodified wgpu-core validation::Interface::check_stage and transcribed create_bind_group_layout rules',
   text='Every run covers the complete storage-texture table (41 formats x 3 accesses x 4 dimensions + atomic) and hundreds of generated shaders using every buffer/texture/sampler kind at sparse indices. The generated Rust is compiled and run against a recording fake wgpu::Device; the layouts it hands to create_bind_group_layout / create_pipeline_layout are passed, in pipeline-layout order, as provided layouts to wgpu-core 24.0.5\'s own Interface::check_stage for every entry point (Missing / Invisible / WrongType / WrongTextureClass / filtering errors are violations) and checked against the entry rules of Device::create_bind_group_layout.',
   note='create_bind_group_layout needs a live device, so its entry rules are a transcription (trusted); wgpu-core only validates resources an entry point uses, so the generator makes every resource used. Known finding K1 (multisampled float textures) is excluded from the search and reported from its canary.'),
 'C03': dict(category='exploration', design_ref='DESIGN.md §5 C03',
   technique='proptest call-graph generation with an AST-level static-access model (cross-checked against naga ModuleInfo); visibility read with syn (wide) and from descriptors recorded by the fake device (executed)',
   text='Thousands of generated call graphs per run (helper DAGs, diamonds, accesses and calls at every position of the statement grammar incl. continuing blocks, switch cases, nested calls, conditions, return values) are judged in both directions per variable: the emitted visibility of every binding and the push-constant stage set must equal exactly the union of stages of the entry points that statically reach the variable. The model is cross-checked against naga\'s analysis on every case (disagreement = harness error, exit 2).',
   note='"statically uses" follows naga/wgpu (non-empty GlobalUse); forms that create an identifier reference without a use (bare pointer, phony assignment of a handle) are not generated.'),
 'C04': dict(category='exploration', design_ref='DESIGN.md §5 C04',
   technique='generated bindings with sparse/unordered indices; generated code executed against a recording fake device and passes; recorded calls compared with the model',
   text='For hundreds of generated shaders per run (1-8 groups, up to 12 bindings, indices unrelated to declaration order, up to u32::MAX) the generated module is compiled and executed: from_bindings is given a distinct resource per named field and the recorded BindGroupDescriptor must carry exactly that resource at the @binding index of the variable, exactly the layout\'s index set, and the layout it created; set / set_bind_groups / BindGroups::set must each produce exactly one set_bind_group per group at its own index on compute, render and bundle passes; the pipeline layout must list the group layouts in index order.',
   note='The fake reproduces wgpu 24.0.5 descriptor fields and method signatures; fidelity is backed by type-checking the same text against the real crate (C01).'),
 'C13': dict(category='exploration', design_ref='DESIGN.md §5 C13',
   technique='proptest generation of push-constant types/usages; WGSL size from an independent layout model; descriptor read with syn (wide) and recorded by the fake device (executed)',
   text='Thousands of generated shaders with and without a push constant of scalar/vector/matrix/array/padded-struct type, used directly, through helpers, by a subset of stages or not at all: exactly one range 0..WGSL size iff the variable exists, the range stage set equals PUSH_CONSTANT_STAGES equals the using stages (or all stages with an entry point when unused), no range and no constant otherwise.',
   note='WGSL size comes from the harness\'s own implementation of the spec layout rules.'),
 'C12': dict(category='exploration', design_ref='DESIGN.md §5 C12',
   technique='proptest override sets x value assignments; generated module compiled and executed; map compared with the model and fed to naga process_overrides',
   text='For hundreds of generated override sets per run (bool/i32/u32/f32, with/without default and @id, dependent defaults) and four value assignments each (extremes and random bit patterns, optional fields set and unset), the probe builds OverrideConstants with an exhaustive explicitly typed literal (rustc checks fields, types, optional-ness), and the evaluated constants() map - also as passed through every vertex/fragment entry helper - must equal the model map bit for bit and be accepted by naga\'s own override resolution with each supplied value arriving as the literal of the override\'s type.',
   note='naga 24.0.0 back::pipeline_constants::process_overrides is the independent shader-compiler-side oracle.'),
 'C14': dict(category='exploration', design_ref='DESIGN.md §5 C14',
   technique='proptest entry-point sets; generated module compiled and executed on the recording fake device; constants, const-generic arities, recorded descriptors and pointer identity compared with the model',
   text='Hundreds of generated shaders per run with 0-4 entry points per stage, non-ASCII names, workgroup sizes from literals/constants with missing dimensions, all fragment result shapes (sparse locations, builtins) and 0-3 vertex struct parameters are compiled and executed: name constants, workgroup-size constants, the ComputePipelineDescriptor recorded by each create_*_pipeline (module from SOURCE, own layout, entry name), the const-generic N of every fragment/vertex entry helper, buffers in parameter order with caller step modes, and that vertex_state/fragment_state forward module, name, buffers/targets and constants by reference.',
   note='Entry names equal up to case (Main/main) are excluded by construction (known finding K2 under C01).'),
 'C15': dict(category='exploration', design_ref='DESIGN.md §5 C15',
   technique='proptest constant declarations with generator-computed exact values; generated module compiled; each constant bound at its expected Rust type and its bits printed',
   text='Hundreds of generated shaders per run with 1-10 constants each: all scalar types naga accepts, edge values (extremes, subnormals, -0.0, non-representable decimals, 64-bit), inferred types, folded integer/float expressions and conversions, references to earlier constants, non-scalar constants. rustc checks the exported type through a typed binding, the printed value/bit pattern must equal the generator\'s own evaluation, and non-scalar constants must be absent.',
   note='Expected values are computed by the generator with exact arithmetic on exactly representable operands; naga 24 cannot negate f64 literals, so negative f64 constants cannot be written.'),
 'C16': dict(category='exploration', design_ref='DESIGN.md §5 C16',
   technique='proptest Unicode/escape-rich payloads in comments, identifiers and include paths; round-trip through syn unescaping (wide) and through rustc + include_bytes! (executed)',
   text='Thousands of shaders per run whose comments carry quotes, backslashes, braces, CR/CRLF, NUL, C0/C1 controls, U+2028/2029, bidi controls, BOM, combining marks, non-BMP and arbitrary scalar values: SOURCE unescaped with syn must equal the input byte for byte; the include variant must be include_str! of exactly the given path (paths with quotes, backslashes, controls) and token-identical elsewhere. A sample is compiled: rustc itself evaluates SOURCE.as_bytes() == include_bytes!(input) under its deny-by-default lints, and the fake device records the string handed to create_shader_module.',
   note='Payloads are placed in comments and identifiers only (the shader must stay valid WGSL).'),
}
PENDING = 'check not built yet in this round (see DESIGN.md §10 build order)'

checks = []
for i in ids:
    if i in CLAIMED:
        c = CLAIMED[i]
        checks.append({
            'property_id': i,
            'quick_cmd': f'./check {i} quick',
            'thorough_cmd': f'./check {i} thorough',
            'evidence_file': f'/verif/evidence/{i}.json',
            'replay_cmd_template': f'./check {i} --replay {{path}}',
            'engine': 'vcheck',
            'level_claimed': {'category': c['category'], 'text': c['text'], 'design_ref': c['design_ref']},
            'level_note': c['note'],
            'technique': c['technique'],
        })
manifest = {
    'version': 1,
    'setup_cmd': './setup.sh',
    'hooks': {
        'guard': '--cfg wgsl_to_wgpu_verif',
        'enable': 'no instrumentation hooks are needed: every observation is taken from the public API return value or by compiling/executing it; checks build /repo/wgsl_to_wgpu as a path dependency of /verif/harness/vcheck',
        'baseline_off_cmd': 'cd /repo && cargo test --workspace --no-fail-fast --offline',
        'source_commits': [],
        'add_only': True,
    },
    'engines': [
        {'name': 'vcheck', 'path': '/verif/harness', 'serves_properties': sorted(CLAIMED), 'kind_free_text': 'Rust harness: proptest-driven structured WGSL generator with reference semantics, naga/wgpu-core differential oracles, compile-and-execute probes against real and recording-fake wgpu, worker children for fault/CPU isolation; cargo-fuzz target for C17'},
    ],
    'checks': checks,
    'not_applicable': [{'property_id': i, 'reason': PENDING} for i in ids if i not in CLAIMED],
    'notes': 'Family: property-based testing and fuzzing. See DESIGN.md. Exit codes: 0 held, 1 violation, 2 inconclusive/infrastructure.',
}
json.dump(manifest, open('/verif/MANIFEST.json', 'w'), indent=1)
print('claimed', sorted(CLAIMED), 'pending', len(manifest['not_applicable']))
