#!/bin/bash
cd /verif
rm -f work/seeds_summary.txt
for seed in ${SEEDS:-1 2 3}; do
 for p in C01 C02 C03 C04 C05 C06 C07 C08 C09 C10 C11 C12 C13 C14 C15 C16 C17 C18 C19 C20; do
  VERIF_SEED=$seed ./check $p quick > work/seed_${seed}_$p.log 2>&1; rc=$?
  echo "seed=$seed $p rc=$rc $(grep "^$p quick" work/seed_${seed}_$p.log | cut -c1-130)" >> work/seeds_summary.txt
 done
done
echo DONE >> work/seeds_summary.txt
