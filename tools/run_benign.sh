#!/bin/bash
# False-alarm experiment: applies each behaviour-preserving change under /verif/benign/<B>/patch.diff to
# /repo, confirms the repository's suite passes with it, runs every quick check, restores /repo.
# A VIOLATION or a non-zero exit against such a change is a false alarm of the machinery.
cd /verif
mkdir -p work/benign
: > work/benign_summary.txt
for d in $(ls -d benign/${1:-B*}); do
  b=$(basename $d)
  [ -z "$(git -C /repo status --short)" ] || { echo "/repo not clean before $b" >> work/benign_summary.txt; exit 2; }
  git -C /repo apply /verif/$d/patch.diff || { echo "$b patch does not apply" >> work/benign_summary.txt; continue; }
  suite=$(cd /repo && cargo test --offline -p wgsl_to_wgpu 2>&1 | grep -E "^test result" | tr '\n' ' ')
  echo "$b suite: $suite" >> work/benign_summary.txt
  for p in C01 C02 C03 C04 C05 C06 C07 C08 C09 C10 C11 C12 C13 C14 C15 C16 C17 C18 C19 C20; do
    ./check $p quick > work/benign/${b}_$p.log 2>&1; rc=$?
    v=$(grep -c '^VIOLATION' work/benign/${b}_$p.log)
    echo "$b $p rc=$rc violations=$v $(grep -m1 -A1 '^VIOLATION' work/benign/${b}_$p.log | tail -1 | cut -c1-160)" >> work/benign_summary.txt
    rm -f replays/$p/found-*.json
  done
  git -C /repo apply -R /verif/$d/patch.diff; git -C /repo checkout -- .
done
echo DONE >> work/benign_summary.txt
