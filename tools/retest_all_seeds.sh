#!/bin/bash
# Regression of the kept seeded changes against the current checks: applies each stored patch to /repo,
# runs the property's quick check, restores /repo. Summary in /verif/work/retest_summary.txt.
# usage: tools/retest_all_seeds.sh [glob]   (default: all seeds)
cd /verif
pat=${1:-*}
mkdir -p work/retest
: > work/retest_summary.txt
for d in seeded/$pat; do
  name=$(basename $d); prop=${name%%-*}
  [ -f $d/patch.diff ] || continue
  [ -z "$(git -C /repo status --short | grep -v "^??")" ] || { echo "/repo not clean before $name" >> work/retest_summary.txt; exit 2; }
  # patches made before a later fix commit may need context fuzz or a 3-way merge
  how=exact
  if [ -f $d/patch_head.diff ]; then
    # the change re-expressed on the current HEAD (the original conflicts with a later fix commit)
    git -C /repo apply /verif/$d/patch_head.diff || { echo "$name patch_head does not apply" >> work/retest_summary.txt; continue; }
    how=ported
  elif ! git -C /repo apply /verif/$d/patch.diff 2>/dev/null; then
    if (cd /repo && patch -p1 -F3 -s --no-backup-if-mismatch --dry-run < /verif/$d/patch.diff >/dev/null 2>&1); then
      (cd /repo && patch -p1 -F3 -s --no-backup-if-mismatch < /verif/$d/patch.diff); how=fuzz
    elif git -C /repo apply -3 /verif/$d/patch.diff 2>/dev/null; then
      how=3way
    else
      git -C /repo reset -q; git -C /repo checkout -- .
      echo "$name patch does not apply" >> work/retest_summary.txt; continue
    fi
  fi
  s=$(date +%s)
  ./check $prop quick > work/retest/$name.log 2>&1; rc=$?
  e=$(date +%s)
  git -C /repo reset -q; git -C /repo checkout -- .
  rm -f replays/$prop/found-*.json
  echo "$name rc=$rc apply=$how $((e-s))s $(grep -m1 -A1 '^VIOLATION' work/retest/$name.log | tail -1 | cut -c1-140)" >> work/retest_summary.txt
done
echo DONE >> work/retest_summary.txt
