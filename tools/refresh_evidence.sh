#!/bin/bash
# Re-run every quick check on the current tree (default seed) so that the committed evidence files are
# complete records of clean runs; validate manifest + evidence.
cd /verif
fail=0
for p in C01 C02 C03 C04 C05 C06 C07 C08 C09 C10 C11 C12 C13 C14 C15 C16 C17 C18 C19 C20; do
  ./check $p quick > work/refresh_$p.log 2>&1; rc=$?
  echo "$p rc=$rc $(grep "^$p quick" work/refresh_$p.log | cut -c1-120)"
  [ $rc -ne 0 ] && fail=1
done
python3-vt tools/validate.py | tail -3
git -C /repo status --short
exit $fail
