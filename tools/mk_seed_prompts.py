#!/usr/bin/env python3
"""usage: tools/mk_seed_prompts.py <round-letter> <style-file>
Writes /tmp/seed_out/<ID><round>.prompt for every property (template + property text + one-line
descriptions of the earlier seeds so that a new agent does something different + the style paragraph)
and creates the scratch worktrees /tmp/wt_<ID><round>. The sub-agents are given only that prompt file."""
import os, re, json, glob, sys, subprocess
rnd, style = sys.argv[1], open(sys.argv[2]).read().strip()
props = {}
for l in open('/verif/properties.jsonl'):
    d = json.loads(l)
    props[d['id']] = f"{d['id']} — {d['title']}\n\n{d['statement']}\n\nQuantified over: {d['quantifier']['text']}"
tried = {}
for d in sorted(glob.glob('/verif/seeded/*')):
    name = os.path.basename(d); pid = name.split('-')[0]
    notes = open(d + '/notes.md').read() if os.path.exists(d + '/notes.md') else ''
    line = next((l.strip('- #*').strip() for l in notes.splitlines() if re.search(r'(?i)change|seeded', l) and len(l) > 30), notes[:200])
    tried.setdefault(pid, []).append(re.sub(r'\s+', ' ', line)[:260])
t = open('/verif/tools/seed_prompt_template.txt').read()
os.makedirs('/tmp/seed_out', exist_ok=True)
for pid, text in props.items():
    wt = f'/tmp/wt_{pid}{rnd}'; out = f'/tmp/seed_out/{pid}{rnd}'
    os.makedirs(out, exist_ok=True)
    p = t.replace('__WT__', wt).replace('__OUT__', out).replace('__PROPERTY__', text)
    p += "\n\nIMPORTANT: earlier attempts already used these ideas:\n" + "\n".join(f"  - {d}" for d in tried.get(pid, [])) + "\nDo something clearly DIFFERENT from all of them. " + style + "\n"
    open(f'/tmp/seed_out/{pid}{rnd}.prompt', 'w').write(p)
    subprocess.run(['git', '-C', '/repo', 'worktree', 'add', '--detach', wt, 'HEAD'], capture_output=True)
print(len(props), 'prompts')
