#!/usr/bin/env python3
"""Prints the markdown table of seeded changes from /verif/seeded/*/meta.json (for DESIGN.md §11.4)."""
import json, glob, os, re
rows=[]
for d in sorted(glob.glob('/verif/seeded/*')):
    m=json.load(open(d+'/meta.json')) if os.path.exists(d+'/meta.json') else None
    if not m: continue
    notes=open(d+'/notes.md').read() if os.path.exists(d+'/notes.md') else ''
    what=next((l.strip('- #*').strip() for l in notes.splitlines() if re.search(r'(?i)change', l) and len(l)>40), '')
    what=re.sub(r'\s+',' ',what)[:230]
    first=m['first_check_run']
    res='caught by `%s` (exit 1, %ss)'%(first['cmd'].replace('./check ',''), first['seconds']) if m.get('caught_by_first_run') else 'missed by first run'
    if m.get('history'):
        res+='; '+m['history']['strengthening']+' → '+m['history']['second_attempt']
    rows.append((m['seed'], what, res))
print('| seed | change (from the seeding agent\'s notes) | result |')
print('|---|---|---|')
for r in rows:
    print('| %s | %s | %s |'%r)
n=len(rows); first=sum(1 for d in glob.glob('/verif/seeded/*/meta.json') if json.load(open(d)).get('caught_by_first_run'))
print()
notc=sum(1 for d in glob.glob('/verif/seeded/*/meta.json') if not json.load(open(d)).get('caught_finally',True))
print(f'{n} seeded changes: {first} caught by the first run of the quick check of their property, {n-first-notc} missed at first and caught after the generator/fault set was strengthened (each strengthening is general, not specific to the seed), {notc} not a violation of its property as stated and caught by the check of the property it does violate (C04-h).')
