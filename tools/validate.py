#!/usr/bin/env python3
"""Validate MANIFEST.json and every evidence file against the schemas (run with python3-vt)."""
import json, glob, sys, jsonschema
m=json.load(open('/verif/MANIFEST.json')); s=json.load(open('/root/.vp/MANIFEST.schema.json')); jsonschema.validate(m,s); print("manifest ok")
es=json.load(open('/root/.vp/EVIDENCE.schema.json'))
for f in sorted(glob.glob('/verif/evidence/*.json')):
    jsonschema.validate(json.load(open(f)), es); print("evidence ok", f)
