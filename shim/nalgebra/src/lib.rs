//! Stand-in for nalgebra's statically sized matrix types. Layout follows nalgebra's documented
//! `ArrayStorage<T, R, C>` = `#[repr(transparent)] [[T; R]; C]` (column-major).

use encase::matrix::{impl_matrix, AsMutMatrixParts, AsRefMatrixParts, FromMatrixParts, MatrixScalar};
use encase::vector::{impl_vector, AsMutVectorParts, AsRefVectorParts, FromVectorParts, VectorScalar};

#[repr(transparent)]
#[derive(Debug, Clone, Copy, PartialEq)]
pub struct SMatrix<T, const R: usize, const C: usize>(pub [[T; R]; C]);

pub type SVector<T, const D: usize> = SMatrix<T, D, 1>;

unsafe impl<T: bytemuck::Zeroable, const R: usize, const C: usize> bytemuck::Zeroable for SMatrix<T, R, C> {}
unsafe impl<T: bytemuck::Pod, const R: usize, const C: usize> bytemuck::Pod for SMatrix<T, R, C> {}

impl<T: serde::Serialize, const R: usize, const C: usize> serde::Serialize for SMatrix<T, R, C> {
    fn serialize<S: serde::Serializer>(&self, s: S) -> Result<S::Ok, S::Error> {
        use serde::ser::SerializeSeq;
        let mut seq = s.serialize_seq(Some(R * C))?;
        for col in &self.0 {
            for v in col {
                seq.serialize_element(v)?;
            }
        }
        seq.end()
    }
}

impl<'de, T: serde::Deserialize<'de> + Copy + Default, const R: usize, const C: usize> serde::Deserialize<'de> for SMatrix<T, R, C> {
    fn deserialize<D: serde::Deserializer<'de>>(d: D) -> Result<Self, D::Error> {
        let v: Vec<T> = Vec::deserialize(d)?;
        if v.len() != R * C {
            return Err(serde::de::Error::custom("wrong element count"));
        }
        let mut m = [[T::default(); R]; C];
        for c in 0..C {
            for r in 0..R {
                m[c][r] = v[c * R + r];
            }
        }
        Ok(SMatrix(m))
    }
}

impl<T, const N: usize> AsRef<[T; N]> for SMatrix<T, N, 1> {
    fn as_ref(&self) -> &[T; N] {
        &self.0[0]
    }
}
impl<T, const N: usize> AsMut<[T; N]> for SMatrix<T, N, 1> {
    fn as_mut(&mut self) -> &mut [T; N] {
        &mut self.0[0]
    }
}

impl<T: VectorScalar, const N: usize> AsRefVectorParts<T, N> for SMatrix<T, N, 1> {
    fn as_ref_parts(&self) -> &[T; N] {
        &self.0[0]
    }
}
impl<T: VectorScalar, const N: usize> AsMutVectorParts<T, N> for SMatrix<T, N, 1> {
    fn as_mut_parts(&mut self) -> &mut [T; N] {
        &mut self.0[0]
    }
}
impl<T: VectorScalar, const N: usize> FromVectorParts<T, N> for SMatrix<T, N, 1> {
    fn from_parts(parts: [T; N]) -> Self {
        SMatrix([parts])
    }
}

impl_vector!(2, SMatrix<T, 2, 1>);
impl_vector!(3, SMatrix<T, 3, 1>);
impl_vector!(4, SMatrix<T, 4, 1>);

macro_rules! mat {
    ($c:literal, $r:literal) => {
        impl<T: MatrixScalar> AsRefMatrixParts<T, $c, $r> for SMatrix<T, $r, $c> {
            fn as_ref_parts(&self) -> &[[T; $r]; $c] {
                &self.0
            }
        }
        impl<T: MatrixScalar> AsMutMatrixParts<T, $c, $r> for SMatrix<T, $r, $c> {
            fn as_mut_parts(&mut self) -> &mut [[T; $r]; $c] {
                &mut self.0
            }
        }
        impl<T: MatrixScalar> FromMatrixParts<T, $c, $r> for SMatrix<T, $r, $c> {
            fn from_parts(parts: [[T; $r]; $c]) -> Self {
                SMatrix(parts)
            }
        }
        impl_matrix!($c, $r, SMatrix<T, $r, $c>);
    };
}
mat!(2, 2);
mat!(3, 2);
mat!(4, 2);
mat!(2, 3);
mat!(3, 3);
mat!(4, 3);
mat!(2, 4);
mat!(3, 4);
mat!(4, 4);
